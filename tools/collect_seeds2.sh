#!/bin/bash
# batches 2, 3: copies sub-agent deliverables $BATCH/<Cnn>/out/{a,b} into /verif/seeded/<Cnn>-{c,d} (BATCH=/tmp/sb, default) or -{e,f} (BATCH=/tmp/sc)
# (patches are against /repo HEAD already); usage: collect_seeds2.sh C18 [C01 ...]
cd /verif
for id in "$@"; do
  for v in a b; do
    d=${BATCH:-/tmp/sb}/$id/out/$v; [ -f $d/patch.diff ] || { echo "$id-$v: no patch"; continue; }
    case "${BATCH:-/tmp/sb}" in /tmp/sc) nv=$( [ $v = a ] && echo e || echo f );; /tmp/sd) nv=$( [ $v = a ] && echo g || echo h );; /tmp/se) nv=$( [ $v = a ] && echo i || echo j );; /tmp/sf) nv=$( [ $v = a ] && echo k || echo l );; /tmp/sg) nv=$( [ $v = a ] && echo m || echo n );; /tmp/sh) nv=$( [ $v = a ] && echo o || echo p );; /tmp/si) nv=$( [ $v = a ] && echo q || echo r );; /tmp/sj) nv=$( [ $v = a ] && echo s || echo t );; /tmp/sk) nv=$( [ $v = a ] && echo u || echo v );; /tmp/sl) nv=$( [ $v = a ] && echo w || echo x );; *) nv=$( [ $v = a ] && echo c || echo d );; esac; t=seeded/$id-$nv
    [ -d $t ] && { echo "$t exists"; continue; }
    mkdir -p $t; cp $d/patch.diff $t/patch.diff
    [ -f $d/meta.json ] && cp $d/meta.json $t/meta.agent.json
    for f in $d/*.rs; do [ -f "$f" ] && cp $f $t/; done
    if git -C /repo apply --check /verif/$t/patch.diff 2>/dev/null; then echo "$t applies"; else echo "$t DOES NOT APPLY"; fi
  done
done
