#!/bin/bash
# runs every registered quick (or $1) check and prints exit code + summary
TIER=${1:-quick}
cd /verif
for id in $(python3 -c "import json;print(' '.join(c['property_id'] for c in json.load(open('MANIFEST.json'))['checks']))"); do
  s=$(date +%s); ./check $id $TIER > /tmp/run_all.$id.log 2>&1; rc=$?; e=$(( $(date +%s) - s ))
  echo "$id rc=$rc ${e}s $(grep -E "^$id $TIER:" /tmp/run_all.$id.log | tail -1)"
  grep -E "^(VIOLATION|KNOWN-FINDING|MACHINERY)" /tmp/run_all.$id.log | head -5
done
