#!/usr/bin/env python3
"""Confirms seeded changes in scratch worktrees of /repo (never in /repo itself):
   with the patch: builds, the pinned suite passes, the demonstration fails;
   without the patch: the demonstration passes. Writes seeded/<id>/confirm.json.
   usage: confirm_seeds.py <slot> <seed> [<seed> ...]"""
import json, os, re, subprocess, sys, shutil, glob, time
slot=sys.argv[1]; seeds=sys.argv[2:]
ENV=dict(os.environ, CARGO_NET_OFFLINE="true", CARGO_INCREMENTAL="0", CARGO_TARGET_DIR=f"/tmp/cs/target_{slot}")
def run(cmd, cwd, timeout=1500):
    try:
        p=subprocess.run(cmd, cwd=cwd, shell=True, env=ENV, capture_output=True, text=True, timeout=timeout)
        return p.returncode, (p.stdout+p.stderr)[-3000:]
    except subprocess.TimeoutExpired as e:
        return 124, "TIMEOUT"
os.makedirs("/tmp/cs", exist_ok=True)
for seed in seeds:
    d=f"/verif/seeded/{seed}"
    wt=f"/tmp/cs/wt_{slot}"
    subprocess.run(f"git -C /repo worktree remove --force {wt}", shell=True, capture_output=True)
    shutil.rmtree(wt, ignore_errors=True)
    subprocess.run(f"git -C /repo worktree add --detach {wt} HEAD", shell=True, capture_output=True, check=True)
    res={"seed":seed,"repo_head":subprocess.run("git -C /repo rev-parse --short HEAD",shell=True,capture_output=True,text=True).stdout.strip()}
    meta={}
    for mf in ("meta.agent.json",):
        if os.path.exists(f"{d}/{mf}"):
            try: meta=json.load(open(f"{d}/{mf}"))
            except Exception: pass
    cmd=meta.get("demo_cmd","") or ""
    m=re.search(r"--features[= ]([\w,]+)", cmd)
    feats=m.group(1) if m else None
    if feats is None and seed in ("C15-a","C15-b","C03-a","C04-a"): feats="async"
    extra=""
    if " -- " in cmd: extra=cmd.split(" -- ",1)[1].strip()
    test=f"demo_{seed.lower().replace('-','_')}"
    rc,out=run(f"git apply {d}/patch.diff", wt)
    res["apply_rc"]=rc
    rc,out=run("cargo build --offline --features async,compress,json,kv,specfile_without_notification,syslog_writer,buffer_writer,dont_minimize_extra_stacks 2>&1 | tail -3", wt)
    res["build_all_features_rc"]=rc
    rc,out=run("cargo nextest run --workspace --no-fail-fast --tool-config-file pb:/w/lib/nextest.toml --profile pb --test-threads 8 --offline 2>&1 | tail -3", wt)
    mm=re.search(r"(\d+) tests run: (\d+) passed", out)
    res["suite_with_patch"]=mm.group(0) if mm else out[-300:]
    res["suite_ok"]=bool(mm and mm.group(1)==mm.group(2)=="77")
    demos=[f for f in glob.glob(f"{d}/*.rs")]
    shutil.copy(demos[0], f"{wt}/tests/{test}.rs")
    fl=f"--features {feats}" if feats else ""
    democmd=f"cargo test --offline {fl} --test {test} -- {extra}".strip()
    res["demo_cmd"]=democmd
    rc,out=run(democmd+" 2>&1 | tail -25", wt)
    # shell pipeline: rc is tail's; look at the text
    failed = ("test result: FAILED" in out) or ("error: test failed" in out) or ("panicked" in out and "test result: ok" not in out)
    res["demo_with_patch"]="fails" if failed else "passes"
    res["demo_with_patch_tail"]=out[-600:]
    run(f"git apply -R {d}/patch.diff", wt)
    run("rm -rf log_files", wt)  # demos that write below the crate directory must not see the first run's files
    rc,out=run(democmd+" 2>&1 | tail -25", wt)
    ok = ("test result: ok" in out) and ("test result: FAILED" not in out)
    res["demo_without_patch"]="passes" if ok else "fails"
    res["demo_without_patch_tail"]=out[-600:]
    res["confirmed"]= res["apply_rc"]==0 and res["suite_ok"] and res["demo_with_patch"]=="fails" and res["demo_without_patch"]=="passes"
    json.dump(res, open(f"{d}/confirm.json","w"), indent=1)
    print(seed, "CONFIRMED" if res["confirmed"] else "NOT-CONFIRMED", res["suite_with_patch"], res["demo_with_patch"], res["demo_without_patch"], flush=True)
    subprocess.run(f"git -C /repo worktree remove --force {wt}", shell=True, capture_output=True)
    shutil.rmtree(wt, ignore_errors=True)
shutil.rmtree(f"/tmp/cs/target_{slot}", ignore_errors=True)
