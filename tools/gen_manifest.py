#!/usr/bin/env python3
"""Regenerates /verif/MANIFEST.json from the table below (one entry per built check)."""
import json, subprocess
ids=[json.loads(l)['id'] for l in open('/verif/properties.jsonl')]
BASE="cd /repo && cargo nextest run --workspace --no-fail-fast --tool-config-file pb:/w/lib/nextest.toml --profile pb --test-threads 8 --offline || (cd /repo && cargo test --workspace --no-fail-fast --offline)"
E1="opseq"; E2="sched"; E3="enum"
CHECKS={
 "C02":("exploration",E3,"bounded-exhaustive enumeration of specifications x probes against a reference matcher",
        "Every specification with <= 3 module names from a prefix-laden alphabet x all six filters x optional default x optional regex, built via parse / LogSpecBuilder / From<LevelFilter>, is installed in a real Logger with recording writers and probed with 10 targets x 5 levels x 4 messages (plus brace targets of an additional writer and forwarding / swallowing LogLineFilters); written == reference decision, max-level gate admits everything acceptable, enabled() never denies a written record.",
        "Name alphabet of 6, regexes {x, ^y$}; quick tier restricts the level of the third module entry to {off, info, trace}.","4 C02"),
 "C05":("model_checking",E1,"bounded-exhaustive exploration of reconfiguration histories against a reference stack machine",
        "All words up to depth 4 (quick) / 5 (thorough) over the five LoggerHandle reconfiguration operations with 5 well-formed specifications (two differing only in the text filter) and 3 malformed texts run on a real Logger; after every operation result kind, enabled-grid, delivered records and log::max_level() are compared with a (active, stack) reference model, and the stack is drained at the end.",
        "One handle; probe grid 5 levels x 6 targets x 2 messages.","4 C05"),
 "C11":("fault_enumeration",E1,"exhaustive crash-point enumeration (directory snapshot at every file-system point) with restart from every crash state; crash model validated by real process aborts",
        "A history runs once on the real logger in direct mode; at every guarded file-system point (before each write, rename, open, symlink removal/creation, listing, removal, gz create/open/copy/finish/remove-original) the directory is copied, which is exactly what a SIGKILL there leaves. Every copy (each (site, occurrence) of every history, for naming x cleanup (tight and generous limits) x symlink x append x 0/1 earlier runs) must contain every acknowledged record, and a new logger (append on and off) must start without error or error-channel output, and after two more rotations the intact files in age order must hold the acknowledged stream (minus a limit-removable prefix, plus optionally the record in flight) followed by the new records, within the count limits. For one history per naming scheme every crash point is also produced by a child process calling abort() at that point and compared byte for byte with the in-process copy.",
        "Kill = process kill (kernel state survives), single write(2) atomic w.r.t. the kill; cleanup in the logging thread; quick: fixed word plus all words <= 3 over {W20,W5,R}, thorough <= 6.","4 C11"),
 "C12":("model_checking",E2,"exhaustive interleaving exploration (controlled scheduler over real threads), no preemption bound",
        "2 (all pairs) and 3 (quick: selected, thorough: all triples) threads with LoggerHandle clones each issue one of set_new_spec / parse_new_spec / push_temp_spec / push+pop / set_new_spec(D); every interleaving of their scheduling points (spec lock acquisition, log::set_max_level, thread start/end) is executed on the real code via token passing through the guarded hooks; afterwards the enabled-grid must equal one submitted specification as a whole and log::max_level() must admit everything it enables. Each reported schedule is replayed twice for determinism.",
        "Sequential consistency at hook granularity; the spec RwLock sections and log::set_max_level are the only shared accesses of these operations; logging threads are not mixed in.","4 C12"),
 "C17":("exploration",E3,"bounded-exhaustive enumeration of specification texts against a reference parser; exhaustive round trips",
        "Every specification with <= 3 module names (7-name alphabet incl. level words) x 6 filters x optional default is round-tripped through Display, TOML and (<= 1 name) a real specfile start/restart; every string of <= 6 (quick) / 7 (thorough) tokens over a 14-token alphabet plus multi-byte characters swept over every byte offset in every kind of part is parsed and compared with a reference parser: no panic, Err iff malformed, salvaged specification == well-formed parts.",
        "Reference parser written from the documented BNF plus the tolerances the unit tests pin (trimmed parts, empty parts skipped, `name=` means trace); empty module names and duplicates only checked for no-panic.","4 C17"),
 "C01":("model_checking",E1,"bounded-exhaustive operation-sequence exploration of the real logger",
        "All words over {write(len), trigger_rotation, flush, clock+1s} up to depth 4 (quick) / 5 (thorough) for naming x criterion x sync write mode (plus line ending x name shapes at a smaller depth) are executed on the real Logger; after every flush and after shutdown the concatenation of the family files in documented age order must equal the accepted lines byte for byte.",
        "Bounds: size limit 20, buffer capacities 16/64, Age::Second, single thread, Cleanup::Never; age order and family membership come from a reference classifier written from the documentation.","4 C01"),
 "C06":("model_checking",E1,"bounded-exhaustive exploration of restart histories (directory = state) on the real logger",
        "Every sequence of up to 3 (quick) / 4 (thorough) runs, each run = append on/off x clock +0/+1 s x shape {no write, W, WWW, W R W}, is executed on one directory by the real logger for naming x cleanup (Never, KeepLogFiles, KeepCompressedFiles, KeepLogAndCompressedFiles; synchronous) x three file-name shapes plus the non-rotating file; after every run: files that existed keep their content (only the file appended to may grow), and the decompressed stream in age order equals all accepted records (minus a removable prefix with a cleanup limit; minus the documented truncation).",
        "Virtual clock; size limit 15 with 10-byte lines; direct write mode; names freed by the cleanup limit may be used again.","4 C06"),
 "C07":("model_checking",E1,"bounded-exhaustive history exploration with a step oracle, plus preemption-bounded schedule exploration of the background cleanup thread",
        "E1: every history up to depth 4 (quick) / 5 (thorough) over {rotating write, small write, trigger_rotation, clock+1s, restart with/without append} for naming x Cleanup(k,m in 0..2) x suffixes, with cleanup in the logging thread (oracle after every operation), in the async writer thread and in the free-running background thread (oracle after shutdown): count limits, contiguous tail of the logged stream, gz round trip against the plain file it replaced, current file plain and newest, nothing removed beyond the limit. E2: logging thread vs background cleanup thread under the controlled scheduler with scheduling points at every listing/remove/create/copy/finish step, all schedules with <= 1 (quick) / 3 (thorough) preemptions.",
        "Size limit 15; virtual clock; E2 assumes the hook points cover all interactions between logging and cleanup thread (state mutex, channel, file system calls).","4 C07"),
 "C08":("model_checking",E1,"bounded-exhaustive exploration of record-length sequences against a reference partition",
        "All sequences of line lengths over {1,2,N-1,N,N+1,3N} up to depth 3-4 (quick) / 5-6 (thorough) for N in {0,1,10,25} x write modes (direct, buffered below/at/above N, async) x naming x start state (fresh / append onto 0,N-1,N,N+1,2N bytes) x Size|AgeOrSize x LF|CRLF run on the real logger; the files in age order must equal the partition predicted by `if cur > N {rotate}`.",
        "Virtual clock frozen; observation after shutdown(); values of N and capacities limited to the boundary-placed ones.","4 C08"),
 "C19":("fault_enumeration",E1,"exhaustive fault-placement enumeration (every file-system call site x occurrence x burst, plus second-order pairs) on the real logger",
        "A fault-free run of the history W W W5 W W R W W W records the trace of guarded file-system points; then every (site, occurrence) x burst 1..3 and every pair of single faults at different sites is executed with the early-error hook failing exactly those calls, for naming x cleanup x {Direct, buffered} x 0/1 earlier run. Oracle: no panic or hang; every operation that hit a fault wrote to the error channel (or returned Err); only records whose own write failed (or that hit a failing initialisation) may be missing, all others exactly once and in order; faults that hit only cleanup steps do not change at which operations files are opened; after the faults clear and three more rotations the count limits hold and the newest record is last.",
        "Injected failure = call has no effect and returns PermissionDenied; symlink and listing sites cannot be failed (handled / unwrapped in place); cleanup in the logging thread.","4 C19"),
}
checks=[]
for i,(lvl,eng,tech,text,note,ref) in CHECKS.items():
    checks.append({"property_id":i,"quick_cmd":f"./check {i} quick","thorough_cmd":f"./check {i} thorough",
      "evidence_file":f"/verif/evidence/{i}.json","replay_cmd_template":"./check replay {path}","engine":eng,
      "level_claimed":{"category":lvl,"text":text,"design_ref":"DESIGN.md section "+ref},
      "level_note":note,"technique":tech})
hooks=subprocess.run(["git","-C","/repo","log","--format=%H","--grep=^verif hooks"],capture_output=True,text=True).stdout.split()
m={"version":1,
 "setup_cmd":"./check build",
 "hooks":{"guard":"--cfg flexi_logger_verif","enable":"RUSTFLAGS=\"--cfg flexi_logger_verif\" via /verif/harness/.cargo/config.toml (cargo build --offline in /verif/harness, target dir /verif/.target)",
   "baseline_off_cmd":BASE,"source_commits":hooks,"add_only":True},
 "engines":[
   {"name":"opseq","path":"/verif/harness","serves_properties":[i for i,c in CHECKS.items() if c[1]==E1],"kind_free_text":"E1: bounded-exhaustive operation-sequence / restart-history exploration executing the real code per transition, with crash and fault overlays"},
   {"name":"sched","path":"/verif/harness","serves_properties":[i for i,c in CHECKS.items() if c[1]==E2],"kind_free_text":"E2: CHESS-style controlled scheduler (token passing through guarded hooks) over real threads, preemption-bounded DFS"},
   {"name":"enum","path":"/verif/harness","serves_properties":[i for i,c in CHECKS.items() if c[1]==E3],"kind_free_text":"E3: bounded-exhaustive input enumeration against reference functions"}],
 "checks":checks,
 "notes":"All checks are run by /verif/check, which rebuilds /verif/harness (path dependency on /repo, hooks on) and then runs the coordinator `fxv check <id> <tier>`; see DESIGN.md.",
 "not_applicable":[{"property_id":i,"reason":"check not built yet (construction in progress, see DESIGN.md section 8)"} for i in ids if i not in CHECKS]}
json.dump(m,open('/verif/MANIFEST.json','w'),indent=1)
print(len(checks),"checks")
