#!/bin/bash
# try_patch.sh <patch.diff> <Cnn> [tier]  — applies a patch to /repo, runs a check, reverts.
# Used only to demonstrate detection; never leaves /repo modified.
P=$(realpath "$1"); ID=$2; TIER=${3:-quick}
cd /repo || exit 2
if [ -n "$(git status --porcelain --untracked-files=no)" ]; then echo "repo not clean" >&2; exit 2; fi
if ! git apply --check "$P" 2>/tmp/apply.err; then cat /tmp/apply.err; echo "patch does not apply to HEAD" >&2; exit 2; fi
git apply "$P"
# (whatever ends this script - also a closed pipe - the working tree of /repo is restored)
trap 'cd /repo && git checkout -- . 2>/dev/null' EXIT
git reset -q 2>/dev/null
cd /verif && ./check "$ID" "$TIER" > /tmp/try_patch.out 2>&1; RC=$?
grep -E "^(VIOLATION|KNOWN-FINDING|MACHINERY|C[0-9]+ (quick|thorough))" /tmp/try_patch.out | head -${LINES_MAX:-8}
grep -A2 -m3 "^VIOLATION" /tmp/try_patch.out | grep -E "key:|detail:" | head -6
echo "exit=$RC"
cd /repo && git checkout -- . && git clean -fdq -e target src tests 2>/dev/null
rm -rf /verif/replays
exit $RC
