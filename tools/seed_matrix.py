#!/usr/bin/env python3
"""Runs quick checks against seeded changes on a scratch COPY of /repo and of the harness
(never on /repo itself). usage: seed_matrix.py <slot> <checks: all|C01,C02..|home> <seed> ...
Writes /verif/seeded/<seed>/detect.<slot>.json"""
import json, os, subprocess, sys, shutil, re
slot, which, seeds = sys.argv[1], sys.argv[2], sys.argv[3:]
base=f"/tmp/mx{slot}"
def sh(cmd, cwd=None, env=None, timeout=3000):
    p=subprocess.run(cmd, cwd=cwd, shell=True, capture_output=True, text=True, env=env, timeout=timeout)
    return p.returncode, p.stdout+p.stderr
shutil.rmtree(base, ignore_errors=True); os.makedirs(base)
sh(f"rsync -a --exclude target --exclude .git /repo/ {base}/repo/")
sh(f"git init -q && git add -A && git commit -qm base", cwd=f"{base}/repo")
sh(f"rsync -a /verif/harness/ {base}/harness/")
t=open(f"{base}/harness/Cargo.toml").read().replace('path = "/repo"', f'path = "{base}/repo"'); open(f"{base}/harness/Cargo.toml","w").write(t)
c=open(f"{base}/harness/.cargo/config.toml").read().replace("/verif/.target", f"{base}/target"); open(f"{base}/harness/.cargo/config.toml","w").write(c)
os.makedirs(f"{base}/verif", exist_ok=True); shutil.copy("/verif/known_findings.json", f"{base}/verif/")
if os.path.exists("/verif/.target/fsshim.so"):
    os.environ["LD_PRELOAD"]="/verif/.target/fsshim.so"
env=dict(os.environ, CARGO_NET_OFFLINE="true", FXV_VERIF_DIR=f"{base}/verif", FXV_WORKERS=os.environ.get("FXV_WORKERS","8"))
allchecks=[c['property_id'] for c in json.load(open('/verif/MANIFEST.json'))['checks']]
for seed in seeds:
    # which == "map": every seed argument is <seed>=<check>,<check>...
    per_seed=None
    if '=' in seed:
        seed,per_seed=seed.split('=',1)
    home=seed.split('-')[0]
    # "rel": the seed's own check plus the checks of neighbouring properties (a change made for one
    # property often shows under another one's oracle)
    REL={"C01":["C19","C08","C15"],"C02":["C17","C05","C13"],"C03":["C15"],"C04":["C07","C15"],"C05":["C02","C12"],"C06":["C19","C11","C07"],
         "C07":["C16","C14"],"C08":["C15","C19","C01"],"C09":["C01"],"C10":["C14","C17"],"C11":["C16","C19"],"C12":["C05"],"C13":["C12","C02"],
         "C14":["C10","C07"],"C15":["C03","C08"],"C16":["C07","C14"],"C17":["C02","C05"],"C18":["C19","C15"],"C19":["C07","C08"],"C20":["C19","C10"]}
    checks = per_seed.split(',') if per_seed else allchecks if which=="all" else ([home] if which=="home" else ([home]+REL.get(home,[]) if which=="rel" else which.split(',')))
    sh("git checkout -q -- . && git clean -fdq", cwd=f"{base}/repo")
    rc,out=sh(f"git apply /verif/seeded/{seed}/patch.diff", cwd=f"{base}/repo")
    res={"seed":seed,"apply_rc":rc,"checks":{}}
    rc,out=sh("cargo build --offline -q", cwd=f"{base}/harness", env=env)
    if rc!=0:
        res["build"]="failed: "+out[-500:]
    else:
        for c in checks:
            rc,out=sh(f"{base}/target/debug/fxv check {c} quick", cwd=f"{base}/harness", env=env)
            keys=sorted(set(re.findall(r"^  key: (.*)$", out, re.M)))
            res["checks"][c]={"exit":rc,"violation_keys":keys[:6],"n_keys":len(keys)}
            print(seed, c, "exit", rc, keys[:2], flush=True)
    json.dump(res, open(f"/verif/seeded/{seed}/detect.{slot}.json","w"), indent=1)
shutil.rmtree(base, ignore_errors=True)
