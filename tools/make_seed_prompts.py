#!/usr/bin/env python3
"""Writes sub-agent prompts for a batch of seeded-defect requests.
   usage: make_seed_prompts.py <batchdir> <Cnn> [...]   (creates <batchdir>/<Cnn>/{prompt.txt,out/} and a worktree wt at /repo HEAD)
   The prompt contains only the text of the property (from properties.jsonl) and one-line summaries
   of the changes already collected for it - nothing else from /verif."""
import json, os, sys, glob, subprocess
batch=sys.argv[1]; ids=sys.argv[2:]
props={json.loads(l)['id']:json.loads(l) for l in open('/verif/properties.jsonl')}
TEMPLATE=open('/tmp/sb/C08/prompt.txt').read() if os.path.exists('/tmp/sb/C08/prompt.txt') else None
def collected(pid):
    out=[]
    for d in sorted(glob.glob(f'/verif/seeded/{pid}-*')):
        for mf in ('meta.agent.json','meta.json'):
            p=os.path.join(d,mf)
            if os.path.exists(p):
                try:
                    m=json.load(open(p)); s=m.get('summary') or ''
                    if s: out.append(' - '+s[:260].replace('\n',' ')); break
                except Exception: pass
    return out
for pid in ids:
    p=props[pid]; d=f'{batch}/{pid}'; os.makedirs(d+'/out',exist_ok=True)
    subprocess.run(f'git -C /repo worktree add --detach {d}/wt HEAD',shell=True,capture_output=True)
    a=p.get('anchors',{})
    anchors='files '+', '.join(a.get('files',[]))+'; mechanisms: '+str(a.get('mechanism',''))
    coll=collected(pid)
    txt=f"""You are helping to test a verification framework by producing realistic *seeded defects* for the Rust crate flexi_logger (a logging backend for the `log` crate).

WORKSPACE RULES
- Your private git worktree of the crate is {d}/wt . Write deliverables to {d}/out/ . Work ONLY under {d}/ . Do NOT read or write /verif or /repo, and do not look at other directories under /tmp.
- The sandbox is offline. Always prefix cargo with `CARGO_NET_OFFLINE=true CARGO_INCREMENTAL=0` and pass `--offline`. No new dependencies can be fetched (dev-dependencies already in Cargo.toml are available: cond_sync, either, flate2, glob, temp-dir, ...).
- Other agents work in sibling worktrees of the same git repository: NEVER use `git stash` (it is shared) - use `git diff -- src > file`, `git checkout -- src`, `git apply file` instead. NEVER use pkill/killall; only kill processes you started, by PID. Do not run more than one full test-suite at a time.
- The source contains lines `#[cfg(flexi_logger_verif)]` followed by a statement calling `crate::verif_hooks::...`, and src/verif_hooks.rs. These are inert verification hooks (not compiled in normal builds). Leave every such line in place and attached to the statement it precedes; do not build your change on them. Line numbers in the anchors below may have shifted a little; the line/function names are what counts.

THE PROPERTY (id {pid}): {p['title']}
Statement: {p['statement']}
Quantified over: {p['quantifier']['text']}
Why the existing tests do not settle it: {p['why_tests_cant']}
Code anchors: {anchors}

CHANGES ALREADY COLLECTED FOR THIS PROPERTY (do NOT repeat these or close variants of them; find different code sites / mechanisms):
{chr(10).join(coll) if coll else ' (none)'}

TASK
Produce TWO different changes (call them "a" and "b"; if after honest effort only one is feasible, deliver one) to the library source under src/ (not tests/, not Cargo.toml) such that each change, on its own:
 (1) BREAKS the property above (some behaviour within the property's quantifier violates the statement),
 (2) still compiles with default features AND with `--features async,compress,json,kv,specfile_without_notification,syslog_writer,buffer_writer,dont_minimize_extra_stacks`,
 (3) the existing test suite still passes completely: `cd {d}/wt && CARGO_NET_OFFLINE=true CARGO_INCREMENTAL=0 cargo test --workspace --no-fail-fast --offline 2>&1 | grep -E "^test result|FAILED|failed|panicked" ` (default features; takes a few minutes; all `test result:` lines must be ok with 0 failed). Run it with the change applied and confirm.
 (4) needs something SPECIFIC to manifest: a particular thread interleaving, a crash or I/O fault at a particular point, a multi-step sequence of operations, an unusual input/configuration, or two cooperating sites that each look fine alone. It must NOT be something ordinary use would expose at once.
 (5) looks like a plausible maintainer mistake, refactoring slip or well-meant "optimisation" (a few lines), not sabotage. The two changes should be at different code sites / exploit different mechanisms.

For each change deliver, in {d}/out/a/ and {d}/out/b/ :
 - patch.diff : unified diff of src/ only, produced by `git -C {d}/wt diff -- src` (must apply with `git apply` to the worktree's HEAD). The demonstration is NOT part of the patch.
 - demo.rs : an integration test file (to be copied to tests/demo_x.rs) that FAILS WITH the change and PASSES WITHOUT it. Make it as deterministic as you can (for interleavings use barriers / sleeps / many iterations and say so; for crashes simulate by copying the directory at a point or by killing a child process; for faults use what the OS offers, the sandbox runs as root so chmod does not block). Verify BOTH directions yourself.
 - meta.json : {{"property":"{pid}","variant":"a|b","summary":"what was changed","why_it_breaks":"...","needs_to_manifest":"...","files_changed":[...],"demo_cmd":"exact cargo test command incl. --features if needed","features":"...","suite_result_with_patch":"...","demo_with_patch":"fails with ...","demo_without_patch":"passes"}}
When finished, leave the worktree clean (`git -C {d}/wt checkout -- . && git -C {d}/wt clean -fdq -e target`) and reply with a short summary. Budget roughly 45 minutes; do not over-polish.
"""
    open(d+'/prompt.txt','w').write(txt)
    print(pid, len(coll), 'collected', d)
