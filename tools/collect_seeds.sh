#!/bin/bash
# copies sub-agent deliverables into /verif/seeded and rebases patches that apply cleanly
cd /verif
for d in /tmp/sa/C*/out/*/; do id=$(echo $d | cut -d/ -f4); v=$(basename $d); [ -f $d/patch.diff ] || continue; t=seeded/$id-$v; [ -d $t ] && continue; mkdir -p $t; cp $d/patch.diff $t/patch.orig.diff; cp $d/meta.json $t/meta.agent.json 2>/dev/null; for f in $d/*.rs; do [ -f "$f" ] && cp $f $t/; done
 if git -C /repo apply --check /verif/$t/patch.orig.diff 2>/dev/null; then cp $t/patch.orig.diff $t/patch.diff; echo "$t clean"; else
   (cd /repo; if git apply -3 /verif/$t/patch.orig.diff >/dev/null 2>&1 && [ -z "$(git diff --name-only --diff-filter=U)" ]; then git reset -q; git diff -- src > /verif/$t/patch.diff; echo "$t rebased-3way"; else echo "$t CONFLICT"; fi; git checkout HEAD -- . 2>/dev/null; git reset -q; git checkout -- .; rm -f $(git ls-files -o --exclude-standard | grep -E '\.(rej|orig)$'))
 fi; done
