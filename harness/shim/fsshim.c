/* fsshim.so — LD_PRELOAD interposition of the libc calls that change the directory tree.
 *
 * Before each such call (and before opendir) the shim invokes a callback the harness registered
 * (fxv_shim_register), with the name of the call and its path argument(s). The harness uses
 * it as a *crash point at system-call granularity*: it copies the log directory as it is
 * right before the call takes effect (C11), independent of where the guarded hooks of the
 * subject sit. The callback may answer with an errno value: the call then fails with it and has
 * no effect (C19: fault placements at system-call granularity). Without a registered callback the
 * shim is inert.
 *
 * Build: cc -shared -fPIC -O1 -o fsshim.so fsshim.c -ldl
 */
#define _GNU_SOURCE
#include <dirent.h>
#include <dlfcn.h>
#include <errno.h>
#include <fcntl.h>
#include <stdarg.h>
#include <stddef.h>
#include <sys/types.h>

typedef int (*fxv_cb)(const char *op, const char *a, const char *b);
static fxv_cb volatile g_cb = 0;
static __thread int g_inside = 0;

void fxv_shim_register(fxv_cb cb) { g_cb = cb; }
int fxv_shim_present(void) { return 1; }

/* returns 0 (go on with the call) or an errno value: the call then fails with it, without effect */
static int notify(const char *op, const char *a, const char *b) {
    fxv_cb cb = g_cb;
    int e = 0;
    if (cb && !g_inside) {
        g_inside = 1;
        e = cb(op, a ? a : "", b ? b : "");
        g_inside = 0;
    }
    return e;
}
#define NOTIFY(op, a, b, failure) do { int e_ = notify(op, a, b); if (e_) { errno = e_; return failure; } } while (0)

#define REAL(name) \
    static __typeof__(name) *real = 0; \
    if (!real) real = (__typeof__(name) *)dlsym(RTLD_NEXT, #name);

int rename(const char *a, const char *b) {
    static int (*real)(const char *, const char *) = 0;
    if (!real) real = dlsym(RTLD_NEXT, "rename");
    NOTIFY("rename", a, b, -1);
    return real(a, b);
}
int renameat(int fa, const char *a, int fb, const char *b) {
    static int (*real)(int, const char *, int, const char *) = 0;
    if (!real) real = dlsym(RTLD_NEXT, "renameat");
    NOTIFY("rename", a, b, -1);
    return real(fa, a, fb, b);
}
int renameat2(int fa, const char *a, int fb, const char *b, unsigned int flags) {
    static int (*real)(int, const char *, int, const char *, unsigned int) = 0;
    if (!real) real = dlsym(RTLD_NEXT, "renameat2");
    NOTIFY("rename", a, b, -1);
    return real(fa, a, fb, b, flags);
}
int link(const char *a, const char *b) {
    static int (*real)(const char *, const char *) = 0;
    if (!real) real = dlsym(RTLD_NEXT, "link");
    NOTIFY("link", a, b, -1);
    return real(a, b);
}
int linkat(int fa, const char *a, int fb, const char *b, int flags) {
    static int (*real)(int, const char *, int, const char *, int) = 0;
    if (!real) real = dlsym(RTLD_NEXT, "linkat");
    NOTIFY("link", a, b, -1);
    return real(fa, a, fb, b, flags);
}
int unlink(const char *a) {
    static int (*real)(const char *) = 0;
    if (!real) real = dlsym(RTLD_NEXT, "unlink");
    NOTIFY("unlink", a, 0, -1);
    return real(a);
}
int unlinkat(int fd, const char *a, int flags) {
    static int (*real)(int, const char *, int) = 0;
    if (!real) real = dlsym(RTLD_NEXT, "unlinkat");
    NOTIFY("unlink", a, 0, -1);
    return real(fd, a, flags);
}
int symlink(const char *target, const char *linkpath) {
    static int (*real)(const char *, const char *) = 0;
    if (!real) real = dlsym(RTLD_NEXT, "symlink");
    NOTIFY("symlink", linkpath, target, -1);
    return real(target, linkpath);
}
int symlinkat(const char *target, int fd, const char *linkpath) {
    static int (*real)(const char *, int, const char *) = 0;
    if (!real) real = dlsym(RTLD_NEXT, "symlinkat");
    NOTIFY("symlink", linkpath, target, -1);
    return real(target, fd, linkpath);
}
int mkdir(const char *a, mode_t m) {
    static int (*real)(const char *, mode_t) = 0;
    if (!real) real = dlsym(RTLD_NEXT, "mkdir");
    NOTIFY("mkdir", a, 0, -1);
    return real(a, m);
}
int rmdir(const char *a) {
    static int (*real)(const char *) = 0;
    if (!real) real = dlsym(RTLD_NEXT, "rmdir");
    NOTIFY("rmdir", a, 0, -1);
    return real(a);
}
int truncate(const char *a, off_t len) {
    static int (*real)(const char *, off_t) = 0;
    if (!real) real = dlsym(RTLD_NEXT, "truncate");
    NOTIFY("truncate", a, 0, -1);
    return real(a, len);
}

/* open with O_CREAT or O_TRUNC changes the tree (a new name, or an emptied file) */
static int changes(int flags) { return (flags & (O_CREAT | O_TRUNC)) != 0; }

int open(const char *a, int flags, ...) {
    static int (*real)(const char *, int, ...) = 0;
    if (!real) real = dlsym(RTLD_NEXT, "open");
    mode_t m = 0;
    if (flags & (O_CREAT | O_TMPFILE)) { va_list ap; va_start(ap, flags); m = va_arg(ap, mode_t); va_end(ap); }
    if (changes(flags)) NOTIFY((flags & O_TRUNC) ? "open-trunc" : "open-creat", a, 0, -1);
    return real(a, flags, m);
}
int open64(const char *a, int flags, ...) {
    static int (*real)(const char *, int, ...) = 0;
    if (!real) real = dlsym(RTLD_NEXT, "open64");
    mode_t m = 0;
    if (flags & (O_CREAT | O_TMPFILE)) { va_list ap; va_start(ap, flags); m = va_arg(ap, mode_t); va_end(ap); }
    if (changes(flags)) NOTIFY((flags & O_TRUNC) ? "open-trunc" : "open-creat", a, 0, -1);
    return real(a, flags, m);
}
int openat(int fd, const char *a, int flags, ...) {
    static int (*real)(int, const char *, int, ...) = 0;
    if (!real) real = dlsym(RTLD_NEXT, "openat");
    mode_t m = 0;
    if (flags & (O_CREAT | O_TMPFILE)) { va_list ap; va_start(ap, flags); m = va_arg(ap, mode_t); va_end(ap); }
    if (changes(flags)) NOTIFY((flags & O_TRUNC) ? "open-trunc" : "open-creat", a, 0, -1);
    return real(fd, a, flags, m);
}
int openat64(int fd, const char *a, int flags, ...) {
    static int (*real)(int, const char *, int, ...) = 0;
    if (!real) real = dlsym(RTLD_NEXT, "openat64");
    mode_t m = 0;
    if (flags & (O_CREAT | O_TMPFILE)) { va_list ap; va_start(ap, flags); m = va_arg(ap, mode_t); va_end(ap); }
    if (changes(flags)) NOTIFY((flags & O_TRUNC) ? "open-trunc" : "open-creat", a, 0, -1);
    return real(fd, a, flags, m);
}

/* listing a directory changes nothing: announced as a fault point only */
DIR *opendir(const char *a) {
    static DIR *(*real)(const char *) = 0;
    if (!real) real = dlsym(RTLD_NEXT, "opendir");
    NOTIFY("opendir", a, 0, (DIR *)0);
    return real(a);
}
