/* fsshim.so — LD_PRELOAD interposition of the libc calls that change the directory tree.
 *
 * Before each such call the shim invokes a callback the harness registered
 * (fxv_shim_register), with the name of the call and its path argument(s). The harness uses
 * it as a *crash point at system-call granularity*: it copies the log directory as it is
 * right before the call takes effect (C11), independent of where the guarded hooks of the
 * subject sit. Without a registered callback the shim is inert.
 *
 * Build: cc -shared -fPIC -O1 -o fsshim.so fsshim.c -ldl
 */
#define _GNU_SOURCE
#include <dlfcn.h>
#include <fcntl.h>
#include <stdarg.h>
#include <stddef.h>
#include <sys/types.h>

typedef void (*fxv_cb)(const char *op, const char *a, const char *b);
static fxv_cb volatile g_cb = 0;
static __thread int g_inside = 0;

void fxv_shim_register(fxv_cb cb) { g_cb = cb; }
int fxv_shim_present(void) { return 1; }

static void notify(const char *op, const char *a, const char *b) {
    fxv_cb cb = g_cb;
    if (cb && !g_inside) {
        g_inside = 1;
        cb(op, a ? a : "", b ? b : "");
        g_inside = 0;
    }
}

#define REAL(name) \
    static __typeof__(name) *real = 0; \
    if (!real) real = (__typeof__(name) *)dlsym(RTLD_NEXT, #name);

int rename(const char *a, const char *b) {
    static int (*real)(const char *, const char *) = 0;
    if (!real) real = dlsym(RTLD_NEXT, "rename");
    notify("rename", a, b);
    return real(a, b);
}
int renameat(int fa, const char *a, int fb, const char *b) {
    static int (*real)(int, const char *, int, const char *) = 0;
    if (!real) real = dlsym(RTLD_NEXT, "renameat");
    notify("rename", a, b);
    return real(fa, a, fb, b);
}
int renameat2(int fa, const char *a, int fb, const char *b, unsigned int flags) {
    static int (*real)(int, const char *, int, const char *, unsigned int) = 0;
    if (!real) real = dlsym(RTLD_NEXT, "renameat2");
    notify("rename", a, b);
    return real(fa, a, fb, b, flags);
}
int link(const char *a, const char *b) {
    static int (*real)(const char *, const char *) = 0;
    if (!real) real = dlsym(RTLD_NEXT, "link");
    notify("link", a, b);
    return real(a, b);
}
int linkat(int fa, const char *a, int fb, const char *b, int flags) {
    static int (*real)(int, const char *, int, const char *, int) = 0;
    if (!real) real = dlsym(RTLD_NEXT, "linkat");
    notify("link", a, b);
    return real(fa, a, fb, b, flags);
}
int unlink(const char *a) {
    static int (*real)(const char *) = 0;
    if (!real) real = dlsym(RTLD_NEXT, "unlink");
    notify("unlink", a, 0);
    return real(a);
}
int unlinkat(int fd, const char *a, int flags) {
    static int (*real)(int, const char *, int) = 0;
    if (!real) real = dlsym(RTLD_NEXT, "unlinkat");
    notify("unlink", a, 0);
    return real(fd, a, flags);
}
int symlink(const char *target, const char *linkpath) {
    static int (*real)(const char *, const char *) = 0;
    if (!real) real = dlsym(RTLD_NEXT, "symlink");
    notify("symlink", linkpath, target);
    return real(target, linkpath);
}
int symlinkat(const char *target, int fd, const char *linkpath) {
    static int (*real)(const char *, int, const char *) = 0;
    if (!real) real = dlsym(RTLD_NEXT, "symlinkat");
    notify("symlink", linkpath, target);
    return real(target, fd, linkpath);
}
int mkdir(const char *a, mode_t m) {
    static int (*real)(const char *, mode_t) = 0;
    if (!real) real = dlsym(RTLD_NEXT, "mkdir");
    notify("mkdir", a, 0);
    return real(a, m);
}
int rmdir(const char *a) {
    static int (*real)(const char *) = 0;
    if (!real) real = dlsym(RTLD_NEXT, "rmdir");
    notify("rmdir", a, 0);
    return real(a);
}
int truncate(const char *a, off_t len) {
    static int (*real)(const char *, off_t) = 0;
    if (!real) real = dlsym(RTLD_NEXT, "truncate");
    notify("truncate", a, 0);
    return real(a, len);
}

/* open with O_CREAT or O_TRUNC changes the tree (a new name, or an emptied file) */
static int changes(int flags) { return (flags & (O_CREAT | O_TRUNC)) != 0; }

int open(const char *a, int flags, ...) {
    static int (*real)(const char *, int, ...) = 0;
    if (!real) real = dlsym(RTLD_NEXT, "open");
    mode_t m = 0;
    if (flags & (O_CREAT | O_TMPFILE)) { va_list ap; va_start(ap, flags); m = va_arg(ap, mode_t); va_end(ap); }
    if (changes(flags)) notify((flags & O_TRUNC) ? "open-trunc" : "open-creat", a, 0);
    return real(a, flags, m);
}
int open64(const char *a, int flags, ...) {
    static int (*real)(const char *, int, ...) = 0;
    if (!real) real = dlsym(RTLD_NEXT, "open64");
    mode_t m = 0;
    if (flags & (O_CREAT | O_TMPFILE)) { va_list ap; va_start(ap, flags); m = va_arg(ap, mode_t); va_end(ap); }
    if (changes(flags)) notify((flags & O_TRUNC) ? "open-trunc" : "open-creat", a, 0);
    return real(a, flags, m);
}
int openat(int fd, const char *a, int flags, ...) {
    static int (*real)(int, const char *, int, ...) = 0;
    if (!real) real = dlsym(RTLD_NEXT, "openat");
    mode_t m = 0;
    if (flags & (O_CREAT | O_TMPFILE)) { va_list ap; va_start(ap, flags); m = va_arg(ap, mode_t); va_end(ap); }
    if (changes(flags)) notify((flags & O_TRUNC) ? "open-trunc" : "open-creat", a, 0);
    return real(fd, a, flags, m);
}
int openat64(int fd, const char *a, int flags, ...) {
    static int (*real)(int, const char *, int, ...) = 0;
    if (!real) real = dlsym(RTLD_NEXT, "openat64");
    mode_t m = 0;
    if (flags & (O_CREAT | O_TMPFILE)) { va_list ap; va_start(ap, flags); m = va_arg(ap, mode_t); va_end(ap); }
    if (changes(flags)) notify((flags & O_TRUNC) ? "open-trunc" : "open-creat", a, 0);
    return real(fd, a, flags, m);
}
