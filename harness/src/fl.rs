//! Executor for multi-run histories of a file-writing logger: operations on a live logger
//! plus stop/restart, with a callback after every operation for the step oracle.
use crate::env::Env;
use std::time::Duration;
use crate::lg::{self, Cfg};
use flexi_logger::LoggerHandle;
use log::Log;

#[derive(Clone, Copy, Debug, PartialEq, Eq, Hash)]
pub enum HOp {
    /// write one line of this total length (including the line ending)
    W(usize),
    /// trigger_rotation
    R,
    /// flush
    F,
    /// advance the virtual clock by seconds
    T(i64),
    /// shut the logger down and start a new one (append on/off)
    Restart(bool),
    /// reopen_output()
    Reopen,
    /// reset_flw() with the configuration the logger was built with (same file / family)
    ResetSame,
    /// as ResetSame, but the builder asks for the other line ending
    ResetOtherEnding,
    /// write one line of this total length whose rendering takes this many (virtual) seconds:
    /// the clock advances after the record's timestamp was taken and before the record is written
    WSlow(usize, i64),
}

pub struct Live {
    pub logger: Box<dyn Log>,
    pub handle: LoggerHandle,
}

pub struct Hist<'a> {
    pub env: &'a Env,
    pub cfg: Cfg,
    pub live: Option<Live>,
    /// every accepted line (with ending), in logging order, over all runs
    pub accepted: Vec<Vec<u8>>,
    /// index into `accepted` where the current run started
    pub run_start: usize,
    pub seq: usize,
    pub runs: usize,
    pub tag: usize,
}

#[derive(Debug)]
pub enum StepErr {
    Build(String),
    Op(String),
}

impl<'a> Hist<'a> {
    pub fn new(env: &'a Env, cfg: Cfg) -> Self {
        Self {
            env,
            cfg,
            live: None,
            accepted: Vec::new(),
            run_start: 0,
            seq: 0,
            runs: 0,
            tag: 0,
        }
    }
    pub fn start(&mut self) -> Result<(), StepErr> {
        let (logger, handle) = self
            .cfg
            .build_logger(&self.env.dir, &self.env.err)
            .map_err(|e| StepErr::Build(e.to_string()))?;
        self.live = Some(Live { logger, handle });
        self.run_start = self.accepted.len();
        self.runs += 1;
        Ok(())
    }
    pub fn stop(&mut self) {
        if let Some(l) = self.live.take() {
            l.handle.shutdown();
            drop(l.logger);
            drop(l.handle);
        }
        self.env.observe();
    }
    /// Applies one operation (starting the logger first if none is live).
    pub fn apply(&mut self, op: HOp) -> Result<(), StepErr> {
        if self.live.is_none() && !matches!(op, HOp::Restart(_) | HOp::T(_)) {
            self.start()?;
        }
        match op {
            HOp::W(len) => {
                let e = self.cfg.ending();
                let len = len.max(e.len());
                let msg = lg::payload(self.tag, self.seq, len - e.len());
                self.seq += 1;
                let mut line = msg.clone().into_bytes();
                line.extend(e.as_bytes());
                self.accepted.push(line);
                lg::log_info(&*self.live.as_ref().unwrap().logger, &msg);
            }
            HOp::WSlow(len, secs) => {
                let e = self.cfg.ending();
                let len = len.max(e.len());
                let msg = lg::payload(self.tag, self.seq, len - e.len());
                self.seq += 1;
                let mut line = msg.clone().into_bytes();
                line.extend(e.as_bytes());
                self.accepted.push(line);
                lg::log_info_slow(&*self.live.as_ref().unwrap().logger, &self.env.clock, secs, &msg);
            }
            HOp::R => {
                self.live
                    .as_ref()
                    .unwrap()
                    .handle
                    .trigger_rotation()
                    .map_err(|e| StepErr::Op(format!("trigger_rotation: {e} ({e:?})")))?;
            }
            HOp::F => self.live.as_ref().unwrap().handle.flush(),
            HOp::Reopen => {
                self.live
                    .as_ref()
                    .unwrap()
                    .handle
                    .reopen_output()
                    .map_err(|e| StepErr::Op(format!("reopen_output: {e} ({e:?})")))?;
            }
            HOp::ResetSame | HOp::ResetOtherEnding => {
                // (the Logger strips the flush interval from the write mode of its file writer)
                let b = if op == HOp::ResetOtherEnding {
                    let mut c = self.cfg.clone();
                    c.crlf = !c.crlf;
                    c.flw_builder(&self.env.dir)
                } else {
                    self.cfg.flw_builder(&self.env.dir)
                };
                use flexi_logger::WriteMode as WM;
                let b = match self.cfg.mode.write_mode() {
                    WM::BufferAndFlush => b.write_mode(WM::BufferDontFlush),
                    WM::BufferAndFlushWith(c, _) => b.write_mode(WM::BufferDontFlushWith(c)),
                    WM::Async => b.write_mode(WM::AsyncWith {
                        pool_capa: flexi_logger::DEFAULT_POOL_CAPA,
                        message_capa: flexi_logger::DEFAULT_MESSAGE_CAPA,
                        flush_interval: Duration::ZERO,
                    }),
                    WM::AsyncWith { pool_capa, message_capa, .. } => b.write_mode(WM::AsyncWith {
                        pool_capa,
                        message_capa,
                        flush_interval: Duration::ZERO,
                    }),
                    _ => b,
                };
                self.live
                    .as_ref()
                    .unwrap()
                    .handle
                    .reset_flw(&b)
                    .map_err(|e| StepErr::Op(format!("reset_flw: {e} ({e:?})")))?;
            }
            HOp::T(s) => self.env.clock.advance_secs(s),
            HOp::Restart(append) => {
                self.stop();
                self.cfg.append = append;
                self.start()?;
            }
        }
        self.env.observe();
        Ok(())
    }
    pub fn stream(&self) -> Vec<u8> {
        self.accepted.concat()
    }
}
impl Drop for Hist<'_> {
    fn drop(&mut self) {
        if let Some(l) = self.live.take() {
            l.handle.shutdown();
        }
    }
}

/// `hay` ends with `needle`-suffix relation on line boundaries: returns the number of leading
/// lines of `lines` that are missing from `got` if `got` equals the concatenation of a suffix of
/// `lines`; None otherwise.
pub fn suffix_of_lines(lines: &[Vec<u8>], got: &[u8]) -> Option<usize> {
    let mut total: usize = lines.iter().map(Vec::len).sum();
    for skip in 0..=lines.len() {
        if total == got.len() {
            let cat: Vec<u8> = lines[skip..].concat();
            return if cat == got { Some(skip) } else { None };
        }
        if total < got.len() {
            return None;
        }
        if skip < lines.len() {
            total -= lines[skip].len();
        }
    }
    None
}
