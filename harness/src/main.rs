//! fxv — model-checking harness for flexi_logger (see /verif/DESIGN.md).
//!
//!   fxv check <Cnn> <quick|thorough>     coordinator: shards over worker processes, merges,
//!                                        writes evidence, prints VIOLATION / KNOWN-FINDING lines
//!   fxv worker <Cnn> <tier> <shard> <n> <outfile>
//!   fxv replay <path>                    re-executes one recorded case
use fxv::report::{self, Out};
use fxv::{props, scratch};
use std::process::{Command, Stdio};
use std::time::{Duration, Instant};

fn usage() -> ! {
    eprintln!("usage: fxv check <Cnn> <quick|thorough> | fxv worker ... | fxv replay <path>");
    std::process::exit(2);
}

fn main() {
    let args: Vec<String> = std::env::args().collect();
    if args.len() < 2 {
        usage();
    }
    let code = match args[1].as_str() {
        "check" if args.len() >= 4 => check(&args[2], &args[3]),
        "worker" if args.len() >= 7 => worker(&args[2], &args[3], &args[4], &args[5], &args[6]),
        "replay" if args.len() >= 3 => replay(&args[2]),
        "child" if args.len() >= 3 => props::child(&args[2..]),
        _ => usage(),
    };
    scratch::remove_root();
    std::process::exit(code);
}

fn seed() -> i64 {
    std::env::var("VERIF_SEED")
        .ok()
        .and_then(|s| s.parse().ok())
        .unwrap_or(0)
}

fn check(id: &str, tier: &str) -> i32 {
    let Some(p) = props::get(id) else {
        eprintln!("unknown property {id}");
        return 2;
    };
    if tier != "quick" && tier != "thorough" {
        usage();
    }
    let t0 = Instant::now();
    let units = (p.units)(tier);
    let ncpu = std::thread::available_parallelism().map_or(4, |n| n.get());
    let nworkers = std::env::var("FXV_WORKERS")
        .ok()
        .and_then(|s| s.parse().ok())
        .unwrap_or(ncpu)
        .min(units.max(1))
        .min((p.max_workers)(tier));
    let exe = std::env::current_exe().expect("current exe");
    let root = scratch::root();
    std::fs::create_dir_all(&root).ok();
    let mut children = Vec::new();
    for s in 0..nworkers {
        let outfile = root.join(format!("worker.{s}.json"));
        let child = Command::new(&exe)
            .args(["worker", id, tier, &s.to_string(), &nworkers.to_string()])
            .arg(&outfile)
            .stdin(Stdio::null())
            .stdout(Stdio::inherit())
            .stderr(Stdio::inherit())
            .spawn()
            .expect("spawn worker");
        children.push((s, child, outfile));
    }
    let cap = Duration::from_secs((p.wall_cap_s)(tier));
    let mut out = Out::default();
    let mut machinery_failed = false;
    for (s, mut child, outfile) in children {
        let status = loop {
            match child.try_wait() {
                Ok(Some(st)) => break Some(st),
                Ok(None) => {
                    if t0.elapsed() > cap {
                        child.kill().ok();
                        child.wait().ok();
                        break None;
                    }
                    std::thread::sleep(Duration::from_millis(20));
                }
                Err(_) => break None,
            }
        };
        match status {
            Some(st) if st.success() => match std::fs::read_to_string(&outfile)
                .ok()
                .and_then(|t| serde_json::from_str::<serde_json::Value>(&t).ok())
            {
                Some(v) => out.merge_json(&v),
                None => {
                    eprintln!("MACHINERY: worker {s} produced no result file");
                    machinery_failed = true;
                }
            },
            Some(st) => {
                eprintln!("MACHINERY: worker {s} exited with {st}");
                machinery_failed = true;
            }
            None => {
                eprintln!("MACHINERY: worker {s} exceeded the wall cap of {cap:?}");
                machinery_failed = true;
            }
        }
    }
    // shortest / simplest first, so that the first replay written is the minimal one
    out.violations
        .sort_by_key(|v| (v.case.to_string().len(), v.key()));
    let meta = (p.meta)();
    let bounds = (p.bounds)(tier);
    let code = report::finish(&meta, tier, seed(), t0.elapsed().as_secs_f64(), &out, bounds);
    // (a violation that was found and confirmed stands, also when another worker of the run failed)
    if machinery_failed && code != 1 {
        return 2;
    }
    code
}

fn worker(id: &str, tier: &str, shard: &str, n: &str, outfile: &str) -> i32 {
    let Some(p) = props::get(id) else { return 2 };
    let shard: usize = shard.parse().unwrap_or(0);
    let n: usize = n.parse().unwrap_or(1);
    fxv::hooks::init();
    fxv::quiet_panics();
    let units = (p.units)(tier);
    // VERIF_SEED only rotates the assignment of units to shards
    let rot = (seed().unsigned_abs() as usize) % n.max(1);
    let mut out = Out::default();
    for u in 0..units {
        if (u + rot) % n == shard {
            // a panic that escapes a unit (the subject panicked where the unit did not expect
            // it) is a result of that unit, not the end of the worker
            let r = std::panic::catch_unwind(std::panic::AssertUnwindSafe(|| (p.run_unit)(tier, u, &mut out)));
            if r.is_err() {
                let m = fxv::LAST_PANIC.with(|x| x.borrow_mut().take()).unwrap_or_default();
                out.violation(fxv::report::Violation::new("panic", format!("escaped-from-unit{u}"), format!("a panic escaped unit {u}: {m}"), serde_json::json!({"unit": u, "escaped": true})));
            }
        }
    }
    std::fs::write(outfile, out.to_json().to_string()).expect("write worker result");
    0
}

fn replay(path: &str) -> i32 {
    let Ok(s) = std::fs::read_to_string(path) else {
        eprintln!("cannot read {path}");
        return 2;
    };
    let doc: serde_json::Value = match serde_json::from_str(&s) {
        Ok(v) => v,
        Err(e) => {
            eprintln!("bad replay file: {e}");
            return 2;
        }
    };
    let id = doc["property"].as_str().unwrap_or("");
    let Some(p) = props::get(id) else {
        eprintln!("unknown property in replay file");
        return 2;
    };
    fxv::hooks::init();
    fxv::quiet_panics();
    let vs = (p.replay)(&doc["case"]);
    if vs.is_empty() {
        println!("replay: property {id} held for this case");
        0
    } else {
        for v in &vs {
            println!("VIOLATION property={id} replay={path}");
            println!("  key: {}", v.key());
            println!("  detail: {}", v.detail);
        }
        1
    }
}
