//! Finite description of logger / file-writer configurations and their construction
//! through the public API of flexi_logger.
use flexi_logger::writers::{FileLogWriter, FileLogWriterBuilder};
use flexi_logger::{
    Age, Cleanup, Criterion, DeferredNow, ErrorChannel, FileSpec, FlexiLoggerError, LogSpecification,
    Logger, LoggerHandle, Naming, WriteMode,
};
use log::{Level, Log, Record};
use std::path::{Path, PathBuf};
use std::time::Duration;

pub const CUSTOM_CUR: &str = "rCUR";
pub const FMT_STD: &str = "r%Y-%m-%d_%H-%M-%S";
pub const FMT_PLAIN: &str = "%Y-%m-%d_%H-%M-%S";

#[derive(Clone, Copy, Debug, PartialEq, Eq, Hash, PartialOrd, Ord)]
pub enum NamingK {
    Numbers,
    NumbersDirect,
    Timestamps,
    TimestampsDirect,
    /// `TimestampsCustomFormat { current_infix: Some("rCUR"), format: "%Y-%m-%d_%H-%M-%S" }`
    CustomCur,
    /// `TimestampsCustomFormat { current_infix: None, format: "r%Y-%m-%d_%H-%M-%S" }`
    CustomDirect,
    /// `TimestampsCustomFormat { current_infix: None, format: "d%Y-%m-%d" }`: a format coarser
    /// than the rotation rhythm (not in `NG`; used by single checks)
    CoarseDirect,
    /// `TimestampsCustomFormat { current_infix: None, format: "r%d-%m-%Y_%H-%M-%S" }`: names that
    /// do not sort chronologically (not in `NG`; used by C09)
    DayFirstDirect,
}
pub const FMT_COARSE: &str = "d%Y-%m-%d";
pub const FMT_DAY_FIRST: &str = "r%d-%m-%Y_%H-%M-%S";
pub const NG: [NamingK; 6] = [
    NamingK::Numbers,
    NamingK::NumbersDirect,
    NamingK::Timestamps,
    NamingK::TimestampsDirect,
    NamingK::CustomCur,
    NamingK::CustomDirect,
];
impl NamingK {
    pub fn naming(self) -> Naming {
        match self {
            Self::Numbers => Naming::Numbers,
            Self::NumbersDirect => Naming::NumbersDirect,
            Self::Timestamps => Naming::Timestamps,
            Self::TimestampsDirect => Naming::TimestampsDirect,
            Self::CustomCur => Naming::TimestampsCustomFormat {
                current_infix: Some(CUSTOM_CUR),
                format: FMT_PLAIN,
            },
            Self::CustomDirect => Naming::TimestampsCustomFormat {
                current_infix: None,
                format: FMT_STD,
            },
            Self::CoarseDirect => Naming::TimestampsCustomFormat {
                current_infix: None,
                format: FMT_COARSE,
            },
            Self::DayFirstDirect => Naming::TimestampsCustomFormat {
                current_infix: None,
                format: FMT_DAY_FIRST,
            },
        }
    }
    pub fn is_numbers(self) -> bool {
        matches!(self, Self::Numbers | Self::NumbersDirect)
    }
    pub fn direct(self) -> bool {
        matches!(
            self,
            Self::NumbersDirect | Self::TimestampsDirect | Self::CustomDirect | Self::CoarseDirect | Self::DayFirstDirect
        )
    }
    /// The infix of the file currently written to, for the non-direct schemes.
    pub fn current_infix(self) -> Option<&'static str> {
        match self {
            Self::Numbers | Self::Timestamps => Some("rCURRENT"),
            Self::CustomCur => Some(CUSTOM_CUR),
            _ => None,
        }
    }
    /// strftime format of the timestamp infix, for timestamp schemes.
    pub fn ts_format(self) -> Option<&'static str> {
        match self {
            Self::Timestamps | Self::TimestampsDirect | Self::CustomDirect => Some(FMT_STD),
            Self::CustomCur => Some(FMT_PLAIN),
            Self::CoarseDirect => Some(FMT_COARSE),
            Self::DayFirstDirect => Some(FMT_DAY_FIRST),
            _ => None,
        }
    }
    pub fn short(self) -> &'static str {
        match self {
            Self::Numbers => "Num",
            Self::NumbersDirect => "NumD",
            Self::Timestamps => "Ts",
            Self::TimestampsDirect => "TsD",
            Self::CustomCur => "CuC",
            Self::CustomDirect => "CuD",
            Self::CoarseDirect => "CoD",
            Self::DayFirstDirect => "DfD",
        }
    }
}

#[derive(Clone, Copy, Debug, PartialEq, Eq, Hash)]
pub enum AgeK {
    Day,
    Hour,
    Minute,
    Second,
}
impl AgeK {
    pub fn age(self) -> Age {
        match self {
            Self::Day => Age::Day,
            Self::Hour => Age::Hour,
            Self::Minute => Age::Minute,
            Self::Second => Age::Second,
        }
    }
}

#[derive(Clone, Copy, Debug, PartialEq, Eq, Hash)]
pub enum CritK {
    Size(u64),
    Age(AgeK),
    AgeOrSize(AgeK, u64),
}
impl CritK {
    pub fn criterion(self) -> Criterion {
        match self {
            Self::Size(n) => Criterion::Size(n),
            Self::Age(a) => Criterion::Age(a.age()),
            Self::AgeOrSize(a, n) => Criterion::AgeOrSize(a.age(), n),
        }
    }
    pub fn size(self) -> Option<u64> {
        match self {
            Self::Size(n) | Self::AgeOrSize(_, n) => Some(n),
            Self::Age(_) => None,
        }
    }
    pub fn age(self) -> Option<AgeK> {
        match self {
            Self::Age(a) | Self::AgeOrSize(a, _) => Some(a),
            Self::Size(_) => None,
        }
    }
}

#[derive(Clone, Copy, Debug, PartialEq, Eq, Hash)]
pub enum CleanK {
    Never,
    Log(usize),
    Gz(usize),
    LogGz(usize, usize),
}
impl CleanK {
    pub fn cleanup(self) -> Cleanup {
        match self {
            Self::Never => Cleanup::Never,
            Self::Log(k) => Cleanup::KeepLogFiles(k),
            Self::Gz(m) => Cleanup::KeepCompressedFiles(m),
            Self::LogGz(k, m) => Cleanup::KeepLogAndCompressedFiles(k, m),
        }
    }
    /// (plain limit, gz limit)
    pub fn limits(self) -> Option<(usize, usize)> {
        match self {
            Self::Never => None,
            Self::Log(k) => Some((k, 0)),
            Self::Gz(m) => Some((0, m)),
            Self::LogGz(k, m) => Some((k, m)),
        }
    }
}

#[derive(Clone, Copy, Debug, PartialEq, Eq, Hash)]
pub enum ModeK {
    Direct,
    SupportCapture,
    BufDont(usize),
    /// BufferAndFlushWith(cap, interval_ms)
    BufFlush(usize, u64),
    /// AsyncWith{pool_capa, message_capa, flush interval ms (0 = none)}
    Async(usize, usize, u64),
    AsyncDefault,
}
impl ModeK {
    pub fn write_mode(self) -> WriteMode {
        match self {
            Self::Direct => WriteMode::Direct,
            Self::SupportCapture => WriteMode::SupportCapture,
            Self::BufDont(c) => WriteMode::BufferDontFlushWith(c),
            Self::BufFlush(c, ms) => WriteMode::BufferAndFlushWith(c, Duration::from_millis(ms)),
            Self::Async(p, m, ms) => WriteMode::AsyncWith {
                pool_capa: p,
                message_capa: m,
                flush_interval: Duration::from_millis(ms),
            },
            Self::AsyncDefault => WriteMode::Async,
        }
    }
    pub fn is_async(self) -> bool {
        matches!(self, Self::Async(..) | Self::AsyncDefault)
    }
    pub fn is_buffered(self) -> bool {
        matches!(self, Self::BufDont(_) | Self::BufFlush(..))
    }
}

#[derive(Clone, Debug, PartialEq, Eq, Hash)]
pub struct NameParts {
    pub basename: Option<String>,
    pub discriminant: Option<String>,
    pub suffix: Option<String>,
    pub use_timestamp: bool,
}
impl NameParts {
    pub fn app() -> Self {
        Self {
            basename: Some("app".into()),
            discriminant: None,
            suffix: Some("log".into()),
            use_timestamp: false,
        }
    }
    pub fn file_spec(&self, dir: &Path) -> FileSpec {
        let mut fs = FileSpec::default()
            .directory(dir)
            .use_timestamp(self.use_timestamp);
        fs = match &self.basename {
            Some(b) => fs.basename(b.clone()),
            None => fs.suppress_basename(),
        };
        fs = fs.o_discriminant(self.discriminant.clone());
        fs = fs.o_suffix(self.suffix.clone());
        fs
    }
    /// basename + optional discriminant, joined as documented (without start time).
    pub fn fixed_without_ts(&self) -> String {
        let mut s = self.basename.clone().unwrap_or_default();
        if let Some(d) = &self.discriminant {
            if !s.is_empty() {
                s.push('_');
            }
            s.push_str(d);
        }
        s
    }
}

#[derive(Clone, Debug, PartialEq, Eq, Hash)]
pub struct Cfg {
    pub rotation: Option<(CritK, NamingK, CleanK)>,
    pub mode: ModeK,
    pub append: bool,
    pub crlf: bool,
    pub parts: NameParts,
    pub bg_cleanup: bool,
    pub symlink: bool,
    pub use_utc: bool,
}
impl Cfg {
    pub fn rot(crit: CritK, naming: NamingK, clean: CleanK) -> Self {
        Self {
            rotation: Some((crit, naming, clean)),
            mode: ModeK::Direct,
            append: false,
            crlf: false,
            parts: NameParts::app(),
            bg_cleanup: false,
            symlink: false,
            use_utc: false,
        }
    }
    pub fn norot() -> Self {
        Self {
            rotation: None,
            mode: ModeK::Direct,
            append: false,
            crlf: false,
            parts: NameParts::app(),
            bg_cleanup: false,
            symlink: false,
            use_utc: false,
        }
    }
    pub fn naming(&self) -> Option<NamingK> {
        self.rotation.map(|r| r.1)
    }
    pub fn ending(&self) -> &'static str {
        if self.crlf {
            "\r\n"
        } else {
            "\n"
        }
    }
    pub fn symlink_path(dir: &Path) -> PathBuf {
        dir.join("link_to_current")
    }
    pub fn short(&self) -> String {
        format!("{self:?}")
    }

    /// A `Logger` with this file configuration, payload-only format, spec `trace`.
    pub fn logger(&self, dir: &Path, errchan: &Path) -> Logger {
        let mut l = Logger::with(LogSpecification::trace())
            .log_to_file(self.parts.file_spec(dir))
            .format(payload_format)
            .write_mode(self.mode.write_mode())
            .error_channel(ErrorChannel::File(errchan.to_path_buf()))
            .o_append(self.append)
            .cleanup_in_background_thread(self.bg_cleanup);
        if let Some((c, n, k)) = self.rotation {
            l = l.rotate(c.criterion(), n.naming(), k.cleanup());
        }
        if self.crlf {
            l = l.use_windows_line_ending();
        }
        if self.symlink {
            l = l.create_symlink(Self::symlink_path(dir));
        }
        if self.use_utc {
            l = l.use_utc();
        }
        l
    }
    pub fn build_logger(
        &self,
        dir: &Path,
        errchan: &Path,
    ) -> Result<(Box<dyn Log>, LoggerHandle), FlexiLoggerError> {
        self.logger(dir, errchan).build()
    }
    /// A `FileLogWriterBuilder` with this configuration.
    pub fn flw_builder(&self, dir: &Path) -> FileLogWriterBuilder {
        let mut b = FileLogWriter::builder(self.parts.file_spec(dir))
            .format(payload_format)
            .write_mode(self.mode.write_mode())
            .o_append(self.append)
            .cleanup_in_background_thread(self.bg_cleanup);
        if let Some((c, n, k)) = self.rotation {
            b = b.rotate(c.criterion(), n.naming(), k.cleanup());
        }
        if self.crlf {
            b = b.use_windows_line_ending();
        }
        if self.symlink {
            b = b.create_symlink(Self::symlink_path(dir));
        }
        if self.use_utc {
            b = b.use_utc();
        }
        b
    }
}

/// Format function that writes the message only: a line is `payload + line ending`.
pub fn payload_format(
    w: &mut dyn std::io::Write,
    now: &mut DeferredNow,
    record: &Record,
) -> Result<(), std::io::Error> {
    // like the provided formats: the record's timestamp is taken before its text is rendered
    let _ = now.now();
    write!(w, "{}", record.args())
}

/// Logs `msg` at info level; rendering the message advances the virtual clock by `secs` seconds
/// (a thread that is held up between taking the record's timestamp and writing the record).
pub fn log_info_slow(logger: &dyn Log, clock: &std::sync::Arc<crate::hooks::VClock>, secs: i64, msg: &str) {
    struct Slow<'a>(&'a std::sync::Arc<crate::hooks::VClock>, i64, &'a str);
    impl std::fmt::Display for Slow<'_> {
        fn fmt(&self, f: &mut std::fmt::Formatter<'_>) -> std::fmt::Result {
            self.0.advance_secs(self.1);
            write!(f, "{}", self.2)
        }
    }
    logger.log(
        &Record::builder()
            .args(format_args!("{}", Slow(clock, secs, msg)))
            .level(Level::Info)
            .target("app")
            .module_path(Some("app"))
            .file(Some("src/h.rs"))
            .line(Some(7))
            .build(),
    );
}

/// Payload of exactly `len` bytes (len may be 0), unique per (thread tag, seq) when len allows.
pub fn payload(tag: usize, seq: usize, len: usize) -> String {
    let head = format!("{tag}.{seq}:");
    if len <= head.len() {
        // too short for the full head: use the trailing characters of the head, so that
        // consecutive short payloads still differ where possible
        let h = head.as_bytes();
        return String::from_utf8_lossy(&h[h.len() - len..]).to_string();
    }
    let mut s = head;
    while s.len() < len {
        s.push((b'a' + ((s.len() + seq) % 26) as u8) as char);
    }
    s
}

pub fn log_to(logger: &dyn Log, level: Level, target: &str, msg: &str) {
    logger.log(
        &Record::builder()
            .args(format_args!("{msg}"))
            .level(level)
            .target(target)
            .module_path(Some(target))
            .file(Some("src/h.rs"))
            .line(Some(7))
            .build(),
    );
}

/// A record whose message logs `inner` (through the same logger) while it is being formatted.
pub fn log_nested(logger: &dyn Log, inner: &str, msg: &str) {
    struct Nested<'a>(&'a dyn Log, &'a str, &'a str);
    impl std::fmt::Display for Nested<'_> {
        fn fmt(&self, f: &mut std::fmt::Formatter<'_>) -> std::fmt::Result {
            log_info(self.0, self.1);
            write!(f, "{}", self.2)
        }
    }
    logger.log(
        &Record::builder()
            .args(format_args!("{}", Nested(logger, inner, msg)))
            .level(Level::Info)
            .target("app")
            .module_path(Some("app"))
            .file(Some("src/h.rs"))
            .line(Some(7))
            .build(),
    );
}

/// A record whose module path is not its target (explicit `target:` in the macros).
pub fn log_with_module(logger: &dyn Log, level: Level, target: &str, module: Option<&str>, msg: &str) {
    logger.log(
        &Record::builder()
            .args(format_args!("{msg}"))
            .level(level)
            .target(target)
            .module_path(module)
            .file(Some("src/h.rs"))
            .line(Some(7))
            .build(),
    );
}

pub fn log_info(logger: &dyn Log, msg: &str) {
    log_to(logger, Level::Info, "app", msg);
}

/// Reads the error channel file, dropping the known artefact of building several loggers in
/// one process (ERRCODE::Palette "already initialized") and the indented help line after it.
pub fn read_errchan(path: &Path) -> Vec<String> {
    let s = std::fs::read_to_string(path).unwrap_or_default();
    let mut out = Vec::new();
    let mut skip_next_help = false;
    for l in s.lines() {
        if l.contains("ERRCODE::Palette") {
            skip_next_help = true;
            continue;
        }
        if skip_next_help && l.trim_start().starts_with("See https://docs.rs/flexi_logger") {
            skip_next_help = false;
            continue;
        }
        skip_next_help = false;
        if l.trim_start().starts_with("See https://docs.rs/flexi_logger") {
            continue;
        }
        out.push(l.to_string());
    }
    out
}
