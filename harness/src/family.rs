//! Reference view of a log directory: which files belong to the logger's family, in which
//! age order a reader takes them, and what they contain (`.gz` transparently decompressed).
//! Written from the documentation of `FileSpec` / `Naming`, independent of the implementation.
use crate::lg::{NameParts, NamingK};
use std::collections::BTreeMap;
use std::io::Read;
use std::path::{Path, PathBuf};

#[derive(Clone, Debug, PartialEq, Eq)]
pub enum Role {
    /// file with the static "current" infix (rCURRENT / custom)
    Current,
    /// rotated file (or, for direct namings, any file with a scheme infix)
    Rotated,
}

#[derive(Clone, Debug, PartialEq, Eq)]
pub struct Member {
    pub name: String,
    /// name without a trailing ".gz"
    pub logical: String,
    pub gz: bool,
    pub role: Role,
    /// sort key for age order
    pub key: (u8, String, i64),
}

/// Parsed infix of the active scheme.
fn parse_infix(naming: NamingK, infix: &str) -> Option<(Role, (u8, String, i64))> {
    if let Some(cur) = naming.current_infix() {
        if infix == cur {
            return Some((Role::Current, (1, String::new(), 0)));
        }
    }
    if naming.is_numbers() {
        // r + at least five digits
        let digits = infix.strip_prefix('r')?;
        if digits.len() < 5 || !digits.bytes().all(|b| b.is_ascii_digit()) {
            return None;
        }
        if digits.len() > 5 && digits.starts_with('0') {
            return None;
        }
        // a valid index that has a successor
        let n: i64 = i64::from(digits.parse::<u32>().ok().filter(|n| *n < u32::MAX)?);
        return Some((Role::Rotated, (0, String::new(), n)));
    }
    let fmt = naming.ts_format()?;
    // optional ".restart-NNNN"
    let (main, restart) = match infix.find(".restart-") {
        Some(i) => {
            let r = &infix[i + 9..];
            if r.len() != 4 || !r.bytes().all(|b| b.is_ascii_digit()) {
                return None;
            }
            (&infix[..i], r.parse::<i64>().ok()?)
        }
        None => (infix, -1),
    };
    // the format must reproduce the text exactly (no sloppy matches)
    // (the sort key is the point in time, not the text: a format need not sort chronologically)
    let sortable = match chrono::NaiveDateTime::parse_from_str(main, fmt) {
        Ok(parsed) => {
            if parsed.format(fmt).to_string() != main {
                return None;
            }
            parsed.format("%Y%m%d%H%M%S%.6f").to_string()
        }
        Err(_) => {
            // a format without time of day
            let d = chrono::NaiveDate::parse_from_str(main, fmt).ok()?;
            if d.format(fmt).to_string() != main {
                return None;
            }
            d.format("%Y%m%d").to_string()
        }
    };
    Some((Role::Rotated, (0, sortable, restart)))
}

/// Classifies a file name; `None` = foreign. `starttime` is the expected start-time part
/// (already formatted) if the configuration uses one.
pub fn classify(
    parts: &NameParts,
    starttime: Option<&str>,
    naming: Option<NamingK>,
    name: &str,
) -> Option<Member> {
    let (logical, gz) = match name.strip_suffix(".gz") {
        Some(l) if naming.is_some() => (l, true),
        _ => (name, false),
    };
    // strip suffix
    let stem = match &parts.suffix {
        Some(sfx) => logical.strip_suffix(&format!(".{sfx}"))?,
        None => logical,
    };
    let mut fixed = parts.fixed_without_ts();
    if let Some(st) = starttime {
        if !fixed.is_empty() {
            fixed.push('_');
        }
        fixed.push_str(st);
    }
    match naming {
        None => {
            if stem == fixed && !gz {
                Some(Member {
                    name: name.to_string(),
                    logical: logical.to_string(),
                    gz,
                    role: Role::Current,
                    key: (1, String::new(), 0),
                })
            } else {
                None
            }
        }
        Some(nk) => {
            let infix = if fixed.is_empty() {
                stem
            } else {
                stem.strip_prefix(&fixed)?.strip_prefix('_')?
            };
            let (role, key) = parse_infix(nk, infix)?;
            if role == Role::Current && gz {
                return None;
            }
            Some(Member {
                name: name.to_string(),
                logical: logical.to_string(),
                gz,
                role,
                key,
            })
        }
    }
}

pub fn list_names(dir: &Path) -> Vec<String> {
    let mut v: Vec<String> = std::fs::read_dir(dir)
        .map(|rd| {
            rd.flatten()
                .map(|e| e.file_name().to_string_lossy().to_string())
                .collect()
        })
        .unwrap_or_default();
    v.sort();
    v
}

pub fn read_file(path: &Path) -> Result<Vec<u8>, String> {
    let raw = std::fs::read(path).map_err(|e| format!("read {}: {e}", path.display()))?;
    if path.extension().is_some_and(|e| e == "gz") {
        let mut out = Vec::new();
        flate2::read::GzDecoder::new(&raw[..])
            .read_to_end(&mut out)
            .map_err(|e| format!("gunzip {}: {e}", path.display()))?;
        Ok(out)
    } else {
        Ok(raw)
    }
}

#[derive(Clone, Debug, Default)]
pub struct Scan {
    /// family members in age order (oldest first, current last)
    pub members: Vec<Member>,
    /// regular files that are not family members
    pub foreign: Vec<String>,
    /// non-regular entries (directories, symlinks)
    pub other: Vec<String>,
}

/// Scans `dir`, ignoring the names in `ignore` (error channel file, symlink).
pub fn scan(
    dir: &Path,
    parts: &NameParts,
    starttime: Option<&str>,
    naming: Option<NamingK>,
    ignore: &[&str],
) -> Scan {
    let mut s = Scan::default();
    for name in list_names(dir) {
        if ignore.contains(&name.as_str()) {
            continue;
        }
        let p = dir.join(&name);
        let md = match std::fs::symlink_metadata(&p) {
            Ok(m) => m,
            Err(_) => continue,
        };
        if !md.is_file() {
            s.other.push(name);
            continue;
        }
        match classify(parts, starttime, naming, &name) {
            Some(m) => s.members.push(m),
            None => s.foreign.push(name),
        }
    }
    s.members.sort_by(|a, b| a.key.cmp(&b.key).then(a.gz.cmp(&b.gz)));
    s
}

impl Scan {
    /// Concatenation of the members' contents in age order.
    pub fn stream(&self, dir: &Path) -> Result<Vec<u8>, String> {
        let mut out = Vec::new();
        for m in &self.members {
            out.extend(read_file(&dir.join(&m.name))?);
        }
        Ok(out)
    }
    pub fn contents(&self, dir: &Path) -> Result<Vec<(String, Vec<u8>)>, String> {
        self.members
            .iter()
            .map(|m| Ok((m.name.clone(), read_file(&dir.join(&m.name))?)))
            .collect()
    }
    pub fn names(&self) -> Vec<String> {
        self.members.iter().map(|m| m.name.clone()).collect()
    }
}

/// name -> size of every regular file (abstract directory for state hashing)
pub fn abstract_dir(dir: &Path) -> BTreeMap<String, u64> {
    let mut m = BTreeMap::new();
    for name in list_names(dir) {
        if let Ok(md) = std::fs::symlink_metadata(dir.join(&name)) {
            if md.is_file() {
                m.insert(name, md.len());
            }
        }
    }
    m
}

pub fn full_paths(dir: &Path, names: &[String]) -> Vec<PathBuf> {
    names.iter().map(|n| dir.join(n)).collect()
}

/// Splits a byte stream into lines that end with `ending`; returns the lines without ending
/// and the unterminated rest.
pub fn split_lines(stream: &[u8], ending: &str) -> (Vec<String>, Vec<u8>) {
    let e = ending.as_bytes();
    let mut lines = Vec::new();
    let mut start = 0;
    let mut i = 0;
    while i + e.len() <= stream.len() {
        if &stream[i..i + e.len()] == e {
            lines.push(String::from_utf8_lossy(&stream[start..i]).to_string());
            i += e.len();
            start = i;
        } else {
            i += 1;
        }
    }
    (lines, stream[start..].to_vec())
}
