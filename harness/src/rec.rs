//! A recording `LogWriter` (and `LogLineFilter`) for observing what the logger hands on.
use flexi_logger::filter::{LogLineFilter, LogLineWriter};
use flexi_logger::writers::LogWriter;
use flexi_logger::{DeferredNow, FormatFunction};
use log::{LevelFilter, Record};
use std::sync::{Arc, Mutex};

#[derive(Clone, Debug, PartialEq, Eq, Hash)]
pub struct Rec {
    pub level: log::Level,
    pub target: String,
    pub msg: String,
    /// timestamp text as the format functions render it (to compare across outputs)
    pub ts: String,
}

#[derive(Default, Debug)]
pub struct RecState {
    pub records: Vec<Rec>,
    /// "write" / "flush" / "shutdown" events in order
    pub events: Vec<&'static str>,
    pub formatted: Vec<Vec<u8>>,
}

#[derive(Clone)]
pub struct Recorder {
    pub state: Arc<Mutex<RecState>>,
    pub max_level: LevelFilter,
    pub format: Option<FormatFunction>,
}
impl Recorder {
    pub fn new(max_level: LevelFilter) -> Self {
        Self {
            state: Arc::new(Mutex::new(RecState::default())),
            max_level,
            format: None,
        }
    }
    pub fn take(&self) -> Vec<Rec> {
        std::mem::take(&mut self.state.lock().unwrap().records)
    }
    pub fn len(&self) -> usize {
        self.state.lock().unwrap().records.len()
    }
    pub fn is_empty(&self) -> bool {
        self.len() == 0
    }
    pub fn events(&self) -> Vec<&'static str> {
        self.state.lock().unwrap().events.clone()
    }
    pub fn formatted(&self) -> Vec<Vec<u8>> {
        self.state.lock().unwrap().formatted.clone()
    }
}
impl LogWriter for Recorder {
    fn write(&self, now: &mut DeferredNow, record: &Record) -> std::io::Result<()> {
        // a writer honours its own ceiling (as FileLogWriter does)
        if record.level() > self.max_level {
            return Ok(());
        }
        let msg = record.args().to_string();
        let ts = now.format("%Y-%m-%d %H:%M:%S%.6f").to_string();
        let mut fm = Vec::new();
        if let Some(f) = self.format {
            f(&mut fm, now, record)?;
        }
        let mut g = self.state.lock().unwrap();
        g.records.push(Rec {
            level: record.level(),
            target: record.target().to_string(),
            msg,
            ts,
        });
        g.events.push("write");
        if self.format.is_some() {
            g.formatted.push(fm);
        }
        Ok(())
    }
    fn flush(&self) -> std::io::Result<()> {
        self.state.lock().unwrap().events.push("flush");
        Ok(())
    }
    fn max_log_level(&self) -> LevelFilter {
        // user code that runs inside a reconfiguration: a scheduling point for harnesses that
        // list it (flexi_logger asks every additional writer for its ceiling before it
        // publishes the global max level)
        if let Some(c) = crate::hooks::current_ctx() {
            if let Some(s) = c.sched.as_ref() {
                s.sync_op(flexi_logger::verif_hooks::Op::Point("writer_max_level"));
            }
        }
        self.max_level
    }
    fn format(&mut self, format: FormatFunction) {
        self.format = Some(format);
    }
    fn shutdown(&self) {
        self.state.lock().unwrap().events.push("shutdown");
    }
}

/// A line filter that records that it was asked and forwards or swallows.
pub struct RecFilter {
    pub asked: Arc<Mutex<Vec<Rec>>>,
    pub forward: bool,
}
impl LogLineFilter for RecFilter {
    fn write(
        &self,
        now: &mut DeferredNow,
        record: &Record,
        w: &dyn LogLineWriter,
    ) -> std::io::Result<()> {
        self.asked.lock().unwrap().push(Rec {
            level: record.level(),
            target: record.target().to_string(),
            msg: record.args().to_string(),
            ts: String::new(),
        });
        if self.forward {
            w.write(now, record)
        } else {
            Ok(())
        }
    }
}
