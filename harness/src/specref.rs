//! Reference semantics of a log specification, written from the documentation:
//! the level filter of the longest specified module name that is a prefix of the target,
//! else the default level, else off; plus an optional regular expression on the message.
use log::{Level, LevelFilter};

#[derive(Clone, Debug, PartialEq, Eq, Hash, Default)]
pub struct RefSpec {
    pub default: Option<LevelFilter>,
    pub modules: Vec<(String, LevelFilter)>,
    pub regex: Option<String>,
}
pub const LEVELS: [Level; 5] = [
    Level::Error,
    Level::Warn,
    Level::Info,
    Level::Debug,
    Level::Trace,
];
pub const FILTERS: [LevelFilter; 6] = [
    LevelFilter::Off,
    LevelFilter::Error,
    LevelFilter::Warn,
    LevelFilter::Info,
    LevelFilter::Debug,
    LevelFilter::Trace,
];
impl RefSpec {
    pub fn level_for(&self, target: &str) -> LevelFilter {
        let mut best: Option<&(String, LevelFilter)> = None;
        for m in &self.modules {
            if target.starts_with(&m.0) && best.map_or(true, |b| m.0.len() > b.0.len()) {
                best = Some(m);
            }
        }
        match best {
            Some(m) => m.1,
            None => self.default.unwrap_or(LevelFilter::Off),
        }
    }
    pub fn enabled(&self, level: Level, target: &str) -> bool {
        level <= self.level_for(target)
    }
    pub fn passes(&self, level: Level, target: &str, msg: &str) -> bool {
        self.enabled(level, target)
            && self
                .regex
                .as_ref()
                .map_or(true, |r| regex::Regex::new(r).map_or(true, |re| re.is_match(msg)))
    }
    pub fn max_level(&self) -> LevelFilter {
        self.modules
            .iter()
            .map(|m| m.1)
            .chain(self.default)
            .max()
            .unwrap_or(LevelFilter::Off)
    }
    /// Text form per the documented grammar.
    pub fn text(&self) -> String {
        let mut parts: Vec<String> = Vec::new();
        if let Some(d) = self.default {
            parts.push(d.to_string().to_lowercase());
        }
        for (n, l) in &self.modules {
            parts.push(format!("{n}={}", l.to_string().to_lowercase()));
        }
        let mut s = parts.join(",");
        if let Some(r) = &self.regex {
            s.push('/');
            s.push_str(r);
        }
        s
    }
    /// Builds the real specification through `LogSpecBuilder`.
    pub fn build(&self) -> flexi_logger::LogSpecification {
        let mut b = flexi_logger::LogSpecification::builder();
        if let Some(d) = self.default {
            b.default(d);
        }
        for (n, l) in &self.modules {
            b.module(n, *l);
        }
        match &self.regex {
            Some(r) => b.finalize_with_textfilter(regex::Regex::new(r).expect("valid regex")),
            None => b.finalize(),
        }
    }
    /// Grid of decisions over levels x targets (bit string), for comparisons.
    pub fn grid(&self, targets: &[&str]) -> Vec<bool> {
        let mut v = Vec::new();
        for t in targets {
            for l in LEVELS {
                v.push(self.enabled(l, t));
            }
        }
        v
    }
}

pub fn grid_of(spec: &flexi_logger::LogSpecification, targets: &[&str]) -> Vec<bool> {
    let mut v = Vec::new();
    for t in targets {
        for l in LEVELS {
            v.push(spec.enabled(l, t));
        }
    }
    v
}
