//! The harness side of the guarded hooks in /repo/src/verif_hooks.rs:
//! virtual clock + creation-time table, file-system points (trace / crash snapshots / injected
//! faults) and the connection to the controlled scheduler.
use chrono::{DateTime, Local, TimeZone};
use flexi_logger::verif_hooks::{self, Handler, Op};
use std::collections::HashMap;
use std::path::{Path, PathBuf};
use std::sync::{Arc, Mutex, OnceLock, RwLock};

pub fn ts(y: i32, mo: u32, d: u32, h: u32, mi: u32, s: u32) -> DateTime<Local> {
    Local
        .with_ymd_and_hms(y, mo, d, h, mi, s)
        .earliest()
        .expect("valid local time")
}

/// Base instant of most scenarios: mid-day, mid-month, no boundary nearby.
pub fn base_instant() -> DateTime<Local> {
    ts(2024, 5, 15, 12, 30, 10)
}

#[derive(Debug)]
struct VInner {
    now: DateTime<Local>,
    table: HashMap<(u64, u64, u128), DateTime<Local>>,
    step_on_query: Option<chrono::Duration>,
    queries: u64,
}

/// Virtual wall clock plus virtual file creation times.
#[derive(Debug)]
pub struct VClock {
    inner: Mutex<VInner>,
}
impl VClock {
    pub fn new(start: DateTime<Local>) -> Arc<Self> {
        Arc::new(Self {
            inner: Mutex::new(VInner {
                now: start,
                table: HashMap::new(),
                step_on_query: None,
                queries: 0,
            }),
        })
    }
    pub fn now(&self) -> DateTime<Local> {
        let mut g = self.inner.lock().unwrap();
        g.queries += 1;
        let t = g.now;
        if let Some(d) = g.step_on_query {
            g.now = t + d;
        }
        t
    }
    pub fn peek(&self) -> DateTime<Local> {
        self.inner.lock().unwrap().now
    }
    pub fn set(&self, t: DateTime<Local>) {
        self.inner.lock().unwrap().now = t;
    }
    pub fn advance(&self, d: chrono::Duration) {
        let mut g = self.inner.lock().unwrap();
        g.now = g.now + d;
    }
    pub fn advance_secs(&self, s: i64) {
        self.advance(chrono::Duration::seconds(s));
    }
    pub fn set_step_on_query(&self, d: Option<chrono::Duration>) {
        self.inner.lock().unwrap().step_on_query = d;
    }
    fn key(path: &Path) -> Option<(u64, u64, u128)> {
        use std::os::unix::fs::MetadataExt;
        let md = std::fs::metadata(path).ok()?;
        let bt = md
            .created()
            .ok()
            .and_then(|t| t.duration_since(std::time::UNIX_EPOCH).ok())
            .map_or(0, |d| d.as_nanos());
        Some((md.dev(), md.ino(), bt))
    }
    /// Virtual creation time of `path`: the virtual instant at which the file was first seen.
    pub fn created(&self, path: &Path) -> DateTime<Local> {
        let k = Self::key(path);
        let mut g = self.inner.lock().unwrap();
        let now = g.now;
        match k {
            None => now,
            Some(k) => *g.table.entry(k).or_insert(now),
        }
    }
    /// Registers every file of `dir` that has not been seen yet as created "now".
    /// Called by the executor after every operation, so that "first seen" == "created".
    pub fn observe_dir(&self, dir: &Path) {
        if let Ok(rd) = std::fs::read_dir(dir) {
            for e in rd.flatten() {
                let p = e.path();
                if let Ok(md) = std::fs::symlink_metadata(&p) {
                    if md.is_file() {
                        self.created(&p);
                    }
                }
            }
        }
    }
    /// Pre-sets the virtual creation time of an existing file (seeded directories).
    pub fn set_created(&self, path: &Path, t: DateTime<Local>) {
        if let Some(k) = Self::key(path) {
            self.inner.lock().unwrap().table.insert(k, t);
        }
    }
    pub fn created_if_known(&self, path: &Path) -> Option<DateTime<Local>> {
        let k = Self::key(path)?;
        self.inner.lock().unwrap().table.get(&k).copied()
    }
}

#[derive(Clone, Debug)]
pub struct FaultSpec {
    pub site: String,
    pub first_occ: usize,
    pub burst: usize,
}

pub type HitFn = Box<dyn FnMut(&'static str, usize, usize, &Path) + Send>;
/// (system call class, running number of notifications in this context, path)
pub type SysFn = Box<dyn FnMut(&'static str, usize, &Path) + Send>;

#[derive(Default)]
pub struct FsCtl {
    /// (site, occurrence index of that site, path)
    pub trace: Vec<(&'static str, usize, PathBuf)>,
    pub counts: HashMap<&'static str, usize>,
    pub faults: Vec<FaultSpec>,
    pub injected: Vec<(&'static str, usize)>,
    /// called at every hit *before* the effect takes place: (site, occ, global index, path)
    pub on_hit: Option<HitFn>,
    /// abort the process at this global hit index (real-kill validation)
    pub abort_at: Option<usize>,
    pub enabled: bool,
    /// system-call level points (LD_PRELOAD shim, see harness/shim/fsshim.c): calls that change
    /// the directory tree below this directory are announced *before* they take effect
    pub sys_dir: Option<PathBuf>,
    pub on_sys: Option<SysFn>,
    pub sys_count: usize,
    /// abort the process at this system-call notification (real-kill validation)
    pub abort_at_sys: Option<usize>,
    /// system-call points are counted only while this is set (the harness clears it around its own
    /// directory scans)
    pub sys_armed: bool,
    /// (call class, path) of every counted notification
    pub sys_trace: Vec<(&'static str, PathBuf)>,
}

/// Everything a scenario can control through the hooks.
#[derive(Default)]
pub struct Ctx {
    pub clock: Option<Arc<VClock>>,
    pub fs: Mutex<FsCtl>,
    pub sched: Option<Arc<crate::sched::Sched>>,
    /// E1: timer threads (flushers) are parked at their `Tick` hook and unwound at the end
    pub ticks: Mutex<TickCtl>,
    pub ticks_cv: std::sync::Condvar,
}

#[derive(Default)]
pub struct TickCtl {
    pub park: bool,
    pub parked: usize,
    pub expected: usize,
    pub released: bool,
}

/// Payload used to end a parked timer thread without invoking the panic hook.
pub struct EndOfScenario;
impl Ctx {
    pub fn with_clock(clock: Arc<VClock>) -> Arc<Self> {
        Arc::new(Self {
            clock: Some(clock),
            fs: Mutex::new(FsCtl::default()),
            sched: None,
            ticks: Mutex::new(TickCtl {
                park: true,
                ..TickCtl::default()
            }),
            ticks_cv: std::sync::Condvar::new(),
        })
    }
    pub fn with_sched(clock: Option<Arc<VClock>>, sched: Arc<crate::sched::Sched>) -> Arc<Self> {
        Arc::new(Self {
            clock,
            fs: Mutex::new(FsCtl::default()),
            sched: Some(sched),
            ticks: Mutex::new(TickCtl::default()),
            ticks_cv: std::sync::Condvar::new(),
        })
    }
    /// Ends all timer threads parked in this context.
    pub fn release_ticks(&self) {
        let mut g = self.ticks.lock().unwrap_or_else(|e| e.into_inner());
        g.released = true;
        self.ticks_cv.notify_all();
    }
}

static CTX: RwLock<Option<Arc<Ctx>>> = RwLock::new(None);

fn ctx() -> Option<Arc<Ctx>> {
    CTX.read().unwrap_or_else(|e| e.into_inner()).clone()
}

pub fn current_ctx() -> Option<Arc<Ctx>> {
    ctx()
}

struct H;
impl Handler for H {
    fn now(&self) -> Option<DateTime<Local>> {
        ctx().and_then(|c| c.clock.as_ref().map(|k| k.now()))
    }
    fn created(&self, path: &Path) -> Option<DateTime<Local>> {
        ctx().and_then(|c| c.clock.as_ref().map(|k| k.created(path)))
    }
    fn fs_point(&self, site: &'static str, path: &Path) -> std::io::Result<()> {
        let Some(c) = ctx() else { return Ok(()) };
        // scheduling point first (no lock may be held while parked)
        if let Some(s) = c.sched.as_ref() {
            s.sync_op(Op::Point(site));
        }
        let mut g = c.fs.lock().unwrap_or_else(|e| e.into_inner());
        if !g.enabled {
            return Ok(());
        }
        let occ = {
            let e = g.counts.entry(site).or_insert(0);
            let o = *e;
            *e += 1;
            o
        };
        let idx = g.trace.len();
        g.trace.push((site, occ, path.to_path_buf()));
        if let Some(mut f) = g.on_hit.take() {
            f(site, occ, idx, path);
            g.on_hit = Some(f);
        }
        if g.abort_at == Some(idx) {
            std::process::abort();
        }
        let hit = g
            .faults
            .iter()
            .any(|f| f.site == site && occ >= f.first_occ && occ < f.first_occ + f.burst);
        if hit {
            g.injected.push((site, occ));
            return Err(std::io::Error::new(
                std::io::ErrorKind::PermissionDenied,
                format!("injected fault at {site}#{occ}"),
            ));
        }
        Ok(())
    }
    fn sync_op(&self, op: Op) {
        if let Some(c) = ctx() {
            if let Some(s) = c.sched.as_ref() {
                s.sync_op(op);
                return;
            }
            match op {
                Op::Tick(_) => {
                    let mut g = c.ticks.lock().unwrap_or_else(|e| e.into_inner());
                    if g.park {
                        g.parked += 1;
                        c.ticks_cv.notify_all();
                        while !g.released {
                            g = c.ticks_cv.wait(g).unwrap_or_else(|e| e.into_inner());
                        }
                        drop(g);
                        drop(c);
                        std::panic::resume_unwind(Box::new(EndOfScenario));
                    }
                }
                Op::Spawned("flusher" | "flw_flusher" | "flw_async_flusher") => {
                    let mut g = c.ticks.lock().unwrap_or_else(|e| e.into_inner());
                    if g.park {
                        g.expected += 1;
                        while g.parked < g.expected {
                            g = c.ticks_cv.wait(g).unwrap_or_else(|e| e.into_inner());
                        }
                    }
                }
                _ => {}
            }
        }
    }
}

/// Installs the process-wide handler once.
pub fn init() {
    static ONCE: OnceLock<()> = OnceLock::new();
    ONCE.get_or_init(|| {
        verif_hooks::install(Some(Arc::new(H)));
    });
}

pub fn set_ctx(c: Option<Arc<Ctx>>) {
    init();
    *CTX.write().unwrap_or_else(|e| e.into_inner()) = c;
}

/// Runs `f` with `c` as the active hook context.
pub fn with_ctx<R>(c: Arc<Ctx>, f: impl FnOnce() -> R) -> R {
    set_ctx(Some(c));
    let r = f();
    set_ctx(None);
    r
}

// ---------------------------------------------------------------- system-call level points

type ShimCb = extern "C" fn(*const libc::c_char, *const libc::c_char, *const libc::c_char) -> libc::c_int;

extern "C" fn shim_cb(op: *const libc::c_char, a: *const libc::c_char, b: *const libc::c_char) -> libc::c_int {
    use std::os::unix::ffi::OsStrExt;
    let Some(c) = ctx() else { return 0 };
    // (the hook-level snapshot copies the directory while it holds this lock: its own file
    // operations are not points)
    let Ok(mut g) = c.fs.try_lock() else { return 0 };
    if !g.enabled || !g.sys_armed {
        return 0;
    }
    let Some(dir) = g.sys_dir.clone() else { return 0 };
    // SAFETY: the shim passes NUL-terminated strings (never null)
    let (op, a, b) = unsafe { (std::ffi::CStr::from_ptr(op), std::ffi::CStr::from_ptr(a), std::ffi::CStr::from_ptr(b)) };
    let pa = Path::new(std::ffi::OsStr::from_bytes(a.to_bytes()));
    let pb = Path::new(std::ffi::OsStr::from_bytes(b.to_bytes()));
    if !(pa.starts_with(&dir) || (!b.to_bytes().is_empty() && pb.starts_with(&dir))) {
        return 0;
    }
    let op: &'static str = match op.to_bytes() {
        b"rename" => "sys:rename",
        b"link" => "sys:link",
        b"unlink" => "sys:unlink",
        b"symlink" => "sys:symlink",
        b"open-creat" => "sys:open-creat",
        b"open-trunc" => "sys:open-trunc",
        b"mkdir" => "sys:mkdir",
        b"rmdir" => "sys:rmdir",
        b"truncate" => "sys:truncate",
        b"opendir" => "sys:opendir",
        _ => "sys:other",
    };
    let n = g.sys_count;
    g.sys_count += 1;
    g.sys_trace.push((op, pa.to_path_buf()));
    if let Some(mut f) = g.on_sys.take() {
        f(op, n, pa);
        g.on_sys = Some(f);
    }
    if g.abort_at_sys == Some(n) {
        std::process::abort();
    }
    // fault placements at system-call granularity: FaultSpec { site: "sys", first_occ = n, burst }
    // (a listing is failed only by a placement that starts at a listing, not inside the burst of
    // another call)
    if g.faults.iter().any(|f| f.site.starts_with("sys:") && n >= f.first_occ && n < f.first_occ + f.burst && (op != "sys:opendir" || f.site == "sys:opendir")) {
        // recorded under the name of the hook site the call corresponds to
        let site = match op {
            "sys:rename" | "sys:link" => "rename",
            "sys:open-creat" | "sys:open-trunc" | "sys:truncate" | "sys:mkdir" => "open",
            "sys:unlink" | "sys:rmdir" => "cleanup_remove",
            "sys:symlink" => "symlink",
            _ => "list",
        };
        g.injected.push((site, n));
        return libc::EACCES;
    }
    0
}

/// True iff the process runs with the interposition shim (LD_PRELOAD); registers the callback.
pub fn shim_available() -> bool {
    static AVAILABLE: OnceLock<bool> = OnceLock::new();
    *AVAILABLE.get_or_init(|| {
        // SAFETY: dlsym on the global scope; the symbol, if present, has the declared signature
        let sym = unsafe { libc::dlsym(libc::RTLD_DEFAULT, c"fxv_shim_register".as_ptr()) };
        if sym.is_null() {
            return false;
        }
        let register: extern "C" fn(ShimCb) = unsafe { std::mem::transmute(sym) };
        register(shim_cb);
        true
    })
}
