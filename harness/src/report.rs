//! Worker results, merging, known findings, replays and evidence files.
use serde_json::{json, Value};
use std::collections::{BTreeMap, BTreeSet, HashSet};
use std::hash::{Hash, Hasher};
use std::path::PathBuf;

pub const VERIF: &str = "/verif";

/// Where known_findings.json is read and evidence / replays are written. The registered checks
/// always use /verif; the seed-matrix tool points scratch copies elsewhere.
pub fn verif_dir() -> PathBuf {
    std::env::var_os("FXV_VERIF_DIR").map_or_else(|| PathBuf::from(VERIF), PathBuf::from)
}

pub fn h64<T: Hash + ?Sized>(t: &T) -> u64 {
    let mut h = std::collections::hash_map::DefaultHasher::new();
    t.hash(&mut h);
    h.finish()
}

#[derive(Clone, Debug)]
pub struct Violation {
    pub clause: String,
    pub cause: String,
    pub detail: String,
    /// enough to re-execute exactly this case: interpreted by the property's `replay`
    pub case: Value,
}
impl Violation {
    pub fn new(clause: &str, cause: impl Into<String>, detail: impl Into<String>, case: Value) -> Self {
        Self {
            clause: clause.to_string(),
            cause: cause.into(),
            detail: detail.into(),
            case,
        }
    }
    pub fn key(&self) -> String {
        format!("{}/{}", self.clause, self.cause)
    }
    fn to_json(&self) -> Value {
        json!({"clause": self.clause, "cause": self.cause, "detail": self.detail, "case": self.case})
    }
    fn from_json(v: &Value) -> Self {
        Self {
            clause: v["clause"].as_str().unwrap_or("").to_string(),
            cause: v["cause"].as_str().unwrap_or("").to_string(),
            detail: v["detail"].as_str().unwrap_or("").to_string(),
            case: v["case"].clone(),
        }
    }
}

#[derive(Default)]
pub struct Out {
    pub evaluations: u64,
    pub transitions: u64,
    pub states: HashSet<u64>,
    pub nontrivial: HashSet<u64>,
    pub outcomes: BTreeMap<String, u64>,
    pub violations: Vec<Violation>,
    pub violation_counts: BTreeMap<String, u64>,
    pub samples: Vec<Value>,
    pub notes: BTreeMap<String, Value>,
    pub counters: BTreeMap<String, u64>,
    pub capped: bool,
    pub traces_validated: u64,
}
impl Out {
    pub fn state<T: Hash + ?Sized>(&mut self, t: &T) {
        self.states.insert(h64(t));
    }
    pub fn nontrivial<T: Hash + ?Sized>(&mut self, t: &T) {
        self.nontrivial.insert(h64(t));
    }
    pub fn outcome(&mut self, k: impl Into<String>) {
        *self.outcomes.entry(k.into()).or_insert(0) += 1;
    }
    pub fn count(&mut self, k: &str, n: u64) {
        *self.counters.entry(k.to_string()).or_insert(0) += n;
    }
    pub fn max(&mut self, k: &str, n: u64) {
        let e = self.counters.entry(k.to_string()).or_insert(0);
        *e = (*e).max(n);
    }
    pub fn sample(&mut self, v: Value) {
        if self.samples.len() < 6 {
            self.samples.push(v);
        }
    }
    /// Records a violation; keeps at most a few full cases per key (the first = minimal ones).
    pub fn violation(&mut self, v: Violation) {
        let k = v.key();
        let c = self.violation_counts.entry(k).or_insert(0);
        *c += 1;
        if *c <= 3 {
            self.violations.push(v);
        }
    }
    pub fn to_json(&self) -> Value {
        json!({
            "evaluations": self.evaluations,
            "transitions": self.transitions,
            "states": self.states.iter().collect::<Vec<_>>(),
            "nontrivial": self.nontrivial.iter().collect::<Vec<_>>(),
            "outcomes": self.outcomes,
            "violations": self.violations.iter().map(Violation::to_json).collect::<Vec<_>>(),
            "violation_counts": self.violation_counts,
            "samples": self.samples,
            "notes": self.notes,
            "counters": self.counters,
            "capped": self.capped,
            "traces_validated": self.traces_validated,
        })
    }
    pub fn merge_json(&mut self, v: &Value) {
        self.evaluations += v["evaluations"].as_u64().unwrap_or(0);
        self.transitions += v["transitions"].as_u64().unwrap_or(0);
        self.traces_validated += v["traces_validated"].as_u64().unwrap_or(0);
        for x in v["states"].as_array().into_iter().flatten() {
            self.states.insert(x.as_u64().unwrap_or(0));
        }
        for x in v["nontrivial"].as_array().into_iter().flatten() {
            self.nontrivial.insert(x.as_u64().unwrap_or(0));
        }
        if let Some(o) = v["outcomes"].as_object() {
            for (k, n) in o {
                *self.outcomes.entry(k.clone()).or_insert(0) += n.as_u64().unwrap_or(0);
            }
        }
        if let Some(o) = v["violation_counts"].as_object() {
            for (k, n) in o {
                *self.violation_counts.entry(k.clone()).or_insert(0) += n.as_u64().unwrap_or(0);
            }
        }
        if let Some(o) = v["counters"].as_object() {
            for (k, n) in o {
                let n = n.as_u64().unwrap_or(0);
                let e = self.counters.entry(k.clone()).or_insert(0);
                if k.starts_with("max_") {
                    *e = (*e).max(n);
                } else if k.starts_with("min_") {
                    *e = if *e == 0 { n } else { (*e).min(n) };
                } else {
                    *e += n;
                }
            }
        }
        for x in v["violations"].as_array().into_iter().flatten() {
            self.violations.push(Violation::from_json(x));
        }
        for x in v["samples"].as_array().into_iter().flatten() {
            if self.samples.len() < 8 {
                self.samples.push(x.clone());
            }
        }
        if let Some(o) = v["notes"].as_object() {
            for (k, n) in o {
                self.notes.entry(k.clone()).or_insert(n.clone());
            }
        }
        self.capped |= v["capped"].as_bool().unwrap_or(false);
    }
}

pub struct Known {
    pub property: String,
    pub pattern: regex::Regex,
    pub status: String,
    pub description: String,
}

pub fn load_known() -> Vec<Known> {
    let p = verif_dir().join("known_findings.json");
    let Ok(s) = std::fs::read_to_string(&p) else {
        return Vec::new();
    };
    let v: Value = serde_json::from_str(&s).expect("known_findings.json is valid JSON");
    v["findings"]
        .as_array()
        .into_iter()
        .flatten()
        .map(|f| Known {
            property: f["property"].as_str().unwrap_or("").to_string(),
            pattern: regex::Regex::new(&format!("^(?:{})$", f["key_pattern"].as_str().unwrap_or("$^")))
                .expect("valid key_pattern"),
            status: f["status"].as_str().unwrap_or("known").to_string(),
            description: f["description"].as_str().unwrap_or("").to_string(),
        })
        .collect()
}

pub struct Meta {
    pub id: &'static str,
    pub level: &'static str,
    pub rule: &'static str,
    pub assumptions: Vec<String>,
}

/// Final step of a check: prints KNOWN-FINDING / VIOLATION lines, writes replays and the
/// evidence file, returns the process exit code.
pub fn finish(meta: &Meta, tier: &str, seed: i64, wall_s: f64, out: &Out, bounds: Value) -> i32 {
    let known = load_known();
    let mut printed_known: BTreeSet<String> = BTreeSet::new();
    let mut unlisted: Vec<&Violation> = Vec::new();
    let mut known_hits: BTreeMap<String, u64> = BTreeMap::new();
    let mut machinery = 0;
    for v in &out.violations {
        let key = v.key();
        // failures of the machinery itself (a stalled or diverging controlled execution, a case
        // that does not reproduce) are never verdicts
        if v.clause == "machinery" || v.clause == "nondeterministic" {
            machinery += 1;
            if machinery <= 5 {
                eprintln!("MACHINERY: property={} {}: {}", meta.id, key, v.detail.chars().take(400).collect::<String>());
            }
            continue;
        }
        let hit = known
            .iter()
            .find(|k| k.property == meta.id && k.status == "known" && k.pattern.is_match(&key));
        match hit {
            Some(k) => {
                *known_hits.entry(k.description.clone()).or_insert(0) += 1;
                if printed_known.insert(k.description.clone()) {
                    println!("KNOWN-FINDING: property={} {} [{}]", meta.id, k.description, key);
                }
            }
            None => unlisted.push(v),
        }
    }
    // counts of keys that were not stored as full cases are covered by their first cases
    let replay_dir = verif_dir().join("replays").join(meta.id);
    let mut seen_keys = BTreeSet::new();
    let mut n_viol = 0;
    for v in &unlisted {
        if !seen_keys.insert(v.key()) {
            continue;
        }
        n_viol += 1;
        std::fs::create_dir_all(&replay_dir).ok();
        let fname = format!("{:016x}.json", h64(&(v.key(), v.case.to_string())));
        let path = replay_dir.join(fname);
        let doc = json!({"property": meta.id, "tier": tier, "key": v.key(), "detail": v.detail, "case": v.case});
        std::fs::write(&path, serde_json::to_string_pretty(&doc).unwrap()).ok();
        println!("VIOLATION property={} replay={}", meta.id, path.display());
        println!("  key: {}", v.key());
        let d: String = v.detail.chars().take(600).collect();
        println!("  detail: {d}");
    }
    let distinct_outcomes = out.outcomes.len();
    let mut coverage = json!({
        "evaluations": out.evaluations,
        "distinct_nontrivial": out.nontrivial.len(),
        "rule": meta.rule,
        "samples": out.samples,
        "states": out.states.len(),
        "transitions": out.transitions,
        "traces_validated_against_impl": out.traces_validated,
        "exhaustive": !out.capped,
        "bounds": bounds,
        "distinct_outcomes": distinct_outcomes,
        "outcomes": out.outcomes.iter().take(40).collect::<BTreeMap<_, _>>(),
        "counters": out.counters,
        "known_findings_hit": known_hits,
        "machinery_failures": machinery,
        "violation_keys": out.violation_counts,
    });
    for (k, v) in &out.notes {
        coverage[k] = v.clone();
    }
    let ev = json!({
        "property_id": meta.id,
        "tier": tier,
        "seed": seed,
        "level": meta.level,
        "coverage": coverage,
        "assumptions": meta.assumptions,
        "wall_s": (wall_s * 100.0).round() / 100.0,
        "violations": n_viol,
    });
    let evdir = verif_dir().join("evidence");
    std::fs::create_dir_all(&evdir).ok();
    std::fs::write(
        evdir.join(format!("{}.json", meta.id)),
        serde_json::to_string_pretty(&ev).unwrap() + "\n",
    )
    .expect("write evidence");
    println!(
        "{} {}: evaluations={} states={} transitions={} nontrivial={} outcomes={} capped={} wall={:.1}s violations={}",
        meta.id,
        tier,
        out.evaluations,
        out.states.len(),
        out.transitions,
        out.nontrivial.len(),
        distinct_outcomes,
        out.capped,
        wall_s,
        n_viol
    );
    if n_viol > 0 {
        1
    } else if machinery > 0 {
        2
    } else {
        0
    }
}
