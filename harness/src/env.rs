//! One scenario's private world: scratch directory, error-channel file, virtual clock, hook
//! context.
use crate::hooks::{self, Ctx, VClock};
use crate::scratch::Scratch;
use chrono::{DateTime, Local};
use std::path::PathBuf;
use std::sync::Arc;

pub struct Env {
    pub root: Scratch,
    /// the log directory
    pub dir: PathBuf,
    /// the error channel file (outside the log directory)
    pub err: PathBuf,
    pub clock: Arc<VClock>,
    pub ctx: Arc<Ctx>,
    owns_ctx: bool,
}
impl Env {
    pub fn new(tag: &str) -> Self {
        Self::at(tag, hooks::base_instant())
    }
    pub fn at(tag: &str, start: DateTime<Local>) -> Self {
        let root = Scratch::new(tag);
        let dir = root.path().join("d");
        std::fs::create_dir_all(&dir).expect("mkdir log dir");
        // One fixed path per process: every `build()` after the first reports "palette already
        // initialized" to the *previous* error channel, which must therefore still exist.
        let err = crate::scratch::root().join("err.log");
        std::fs::write(&err, b"").ok();
        let clock = VClock::new(start);
        let ctx = Ctx::with_clock(Arc::clone(&clock));
        Self {
            root,
            dir,
            err,
            clock,
            ctx,
            owns_ctx: true,
        }
    }
    /// An environment inside an already active hook context (scheduler runs): uses that
    /// context's clock and never replaces or clears the context.
    pub fn in_current(tag: &str) -> Self {
        let ctx = hooks::current_ctx().expect("active hook context");
        let clock = ctx.clock.clone().unwrap_or_else(|| VClock::new(hooks::base_instant()));
        let root = Scratch::new(tag);
        let dir = root.path().join("d");
        std::fs::create_dir_all(&dir).expect("mkdir log dir");
        let err = crate::scratch::root().join("err.log");
        std::fs::write(&err, b"").ok();
        Self {
            root,
            dir,
            err,
            clock,
            ctx,
            owns_ctx: false,
        }
    }
    /// Makes the hooks of this environment the active ones (until `leave`).
    pub fn enter(&self) {
        hooks::set_ctx(Some(Arc::clone(&self.ctx)));
    }
    pub fn leave(&self) {
        if self.owns_ctx {
            self.ctx.release_ticks();
            hooks::set_ctx(None);
        }
    }
    /// To be called after every operation: files created by it get the current virtual instant.
    pub fn observe(&self) {
        // (the harness's own scan is not a system-call point of the subject)
        let was = std::mem::replace(&mut self.ctx.fs.lock().unwrap_or_else(|e| e.into_inner()).sys_armed, false);
        self.clock.observe_dir(&self.dir);
        self.ctx.fs.lock().unwrap_or_else(|e| e.into_inner()).sys_armed = was;
    }
    pub fn errlines(&self) -> Vec<String> {
        crate::lg::read_errchan(&self.err)
    }
}
impl Drop for Env {
    fn drop(&mut self) {
        if !self.owns_ctx {
            return;
        }
        self.ctx.release_ticks();
        hooks::set_ctx(None);
    }
}
