//! Harness library: see /verif/DESIGN.md.
pub mod capture;
pub mod env;
pub mod family;
pub mod fl;
pub mod hooks;
pub mod lg;
pub mod props;
pub mod rec;
pub mod report;
pub mod sched;
pub mod scratch;
pub mod specref;

use std::sync::atomic::{AtomicBool, Ordering};
use std::sync::mpsc;
use std::time::Duration;

static QUIET: AtomicBool = AtomicBool::new(false);
thread_local! {
    pub static LAST_PANIC: std::cell::RefCell<Option<String>> = const { std::cell::RefCell::new(None) };
}

/// Panics inside scenarios are expected observations (C10) — record them per thread instead of
/// printing them.
pub fn quiet_panics() {
    if QUIET.swap(true, Ordering::SeqCst) {
        return;
    }
    std::panic::set_hook(Box::new(|info| {
        let loc = info
            .location()
            .map(|l| format!("{}:{}", l.file(), l.line()))
            .unwrap_or_default();
        let msg = if let Some(s) = info.payload().downcast_ref::<&str>() {
            (*s).to_string()
        } else if let Some(s) = info.payload().downcast_ref::<String>() {
            s.clone()
        } else {
            "<non-string panic>".to_string()
        };
        let th = std::thread::current();
        let name = th.name().unwrap_or("");
        if !(name.starts_with("fxv-") || name.starts_with("flexi_logger")) {
            // not a scenario thread: this is a failure of the machinery itself
            eprintln!("MACHINERY: panic in thread {name:?} at {loc}: {msg}");
        }
        LAST_PANIC.with(|p| *p.borrow_mut() = Some(format!("{loc}: {msg}")));
    }));
}

#[derive(Debug)]
pub enum Ran<R> {
    Done(R),
    /// location + message
    Panicked(String),
    Hung,
}

/// Runs `f` on a fresh thread (fresh thread-local format buffer), catching panics and
/// reporting a hang if it does not finish within `watchdog`.
pub fn run_isolated<R: Send + 'static>(
    watchdog: Duration,
    f: impl FnOnce() -> R + Send + 'static,
) -> Ran<R> {
    let (tx, rx) = mpsc::channel();
    let h = std::thread::Builder::new()
        .name("fxv-scenario".into())
        .stack_size(4 << 20)
        .spawn(move || {
            let r = std::panic::catch_unwind(std::panic::AssertUnwindSafe(f));
            let r = match r {
                Ok(v) => Ran::Done(v),
                Err(_) => Ran::Panicked(
                    LAST_PANIC
                        .with(|p| p.borrow_mut().take())
                        .unwrap_or_else(|| "<unknown panic>".into()),
                ),
            };
            tx.send(r).ok();
        })
        .expect("spawn scenario thread");
    match rx.recv_timeout(watchdog) {
        Ok(r) => {
            h.join().ok();
            r
        }
        Err(_) => Ran::Hung,
    }
}

/// Calls `f` with every word over `0..k` of length `0..=max_len`, shortest first, in
/// lexicographic order within a length.
pub fn for_each_word(k: usize, max_len: usize, mut f: impl FnMut(&[usize])) {
    for len in 0..=max_len {
        if k == 0 && len > 0 {
            break;
        }
        let mut w = vec![0usize; len];
        'outer: loop {
            f(&w);
            let mut i = len;
            loop {
                if i == 0 {
                    break 'outer;
                }
                i -= 1;
                w[i] += 1;
                if w[i] < k {
                    break;
                }
                w[i] = 0;
            }
        }
    }
}

/// Number of words over k letters with length 0..=max_len.
pub fn word_count(k: usize, max_len: usize) -> u64 {
    (0..=max_len as u32).map(|l| (k as u64).pow(l)).sum()
}
