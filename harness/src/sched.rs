//! E2 — controlled scheduler: a CHESS-style stateless explorer over real OS threads running the
//! real code. Exactly one controlled thread runs at a time; at every guarded hook the running
//! thread publishes its pending operation, the next thread is chosen (by replaying a recorded
//! prefix of choices, then "stay with the running thread"), and the chosen thread continues.
//! Blocking operations are modelled (lock owner table, channel counters, thread exits, tick
//! budgets), so a disabled thread is never granted the token.
use flexi_logger::verif_hooks::Op;
use std::collections::HashMap;
use std::sync::{Arc, Condvar, Mutex, MutexGuard};
use std::thread::ThreadId;
use std::time::{Duration, Instant};

pub struct EndOfExecution;

#[derive(Clone, Debug, PartialEq, Eq)]
enum TState {
    Running,
    Parked,
    /// granted the token but did not come back within the grace period: it blocks on a
    /// primitive the model does not know (only with `detect_real_blocking`)
    Blocked,
    Finished,
}

#[derive(Debug)]
struct T {
    os: ThreadId,
    /// kernel thread id (for /proc/self/task/<tid>)
    ktid: i64,
    kind: String,
    harness: bool,
    state: TState,
    pending: Option<Op>,
    /// an unmodelled lock (see `nonblocking_locks`) the thread is about to take for real
    want: Option<(&'static str, usize)>,
    /// the unmodelled lock the thread was observed to block on
    awaiting: Option<(&'static str, usize)>,
}

#[derive(Clone, Debug)]
pub struct ChoicePoint {
    /// enabled thread ids in canonical order: the running thread first if still enabled
    pub enabled: Vec<usize>,
    pub chosen: usize,
    /// the thread that was running when the choice was made is still enabled (switching away
    /// from it costs a preemption)
    pub running_enabled: bool,
    pub ops: Vec<String>,
}

#[derive(Clone, Debug, PartialEq, Eq)]
pub enum Abort {
    Deadlock(String),
    Diverged(String),
}

struct Inner {
    threads: Vec<T>,
    running: Option<usize>,
    locks: HashMap<(&'static str, usize), usize>,
    /// unmodelled locks: who holds them according to the hooks. Never used to disable a thread
    /// (the real primitive decides who runs); only to know when a thread that blocked for real
    /// has been woken, so that the scheduler waits for its arrival before the next choice
    shadow: HashMap<(&'static str, usize), usize>,
    chans: HashMap<(&'static str, usize), i64>,
    tick_budget: HashMap<&'static str, usize>,
    default_tick_budget: usize,
    registered: HashMap<String, usize>,
    claimed: HashMap<String, usize>,
    prefix: Vec<usize>,
    points: Vec<ChoicePoint>,
    abort: Option<Abort>,
    ending: bool,
    ignore: Vec<&'static str>,
    points_after_release: Vec<&'static str>,
    only_points: Option<Vec<&'static str>>,
    eager_others: bool,
    nonblocking_locks: Vec<&'static str>,
    detect_real_blocking: bool,
    last_progress: Instant,
    /// consecutive observations of the running thread sleeping in a futex wait
    asleep: u32,
    /// the running thread waits inside the scheduler itself (for a spawned thread to register):
    /// that is no block on an unknown primitive, however long it takes on a loaded machine
    internal_wait: u32,
    /// since when nobody holds the token, nobody is enabled and somebody is blocked for real
    all_blocked_since: Option<Instant>,
    log: Vec<String>,
    keep_log: bool,
}

pub struct Sched {
    inner: Mutex<Inner>,
    cv: Condvar,
}

thread_local! {
    static GUARD: std::cell::RefCell<Option<Guard>> = const { std::cell::RefCell::new(None) };
}
struct Guard {
    sched: Arc<Sched>,
    tid: usize,
}
impl Drop for Guard {
    fn drop(&mut self) {
        self.sched.finished(self.tid);
    }
}

/// The kernel says the thread sleeps in a futex wait.
fn kernel_blocked(ktid: i64) -> bool {
    let stat = std::fs::read_to_string(format!("/proc/self/task/{ktid}/stat")).unwrap_or_default();
    // pid (comm) state ...
    let state = stat.rsplit(')').next().and_then(|r| r.trim_start().chars().next()).unwrap_or('R');
    if state != 'S' {
        return false;
    }
    let wchan = std::fs::read_to_string(format!("/proc/self/task/{ktid}/wchan")).unwrap_or_default();
    wchan.starts_with("futex") || wchan == "0" || wchan.is_empty()
}

fn kind_of_thread_name(name: &str) -> Option<&'static str> {
    Some(match name {
        "flexi_logger-async_file_writer" => "flw_async_writer",
        "flexi_logger-fs-cleanup" => "flw_cleanup",
        "flexi_logger-file_flusher" => "flw_flusher",
        "flexi_logger-fs-async_flusher" => "flw_async_flusher",
        "flexi_logger-flusher" => "flusher",
        "flexi_logger-async_std_writer" => "std_async_writer",
        _ => return None,
    })
}

#[derive(Clone, Debug, Default)]
pub struct SchedCfg {
    pub prefix: Vec<usize>,
    /// names of `Point`s that are not scheduling points
    pub ignore: Vec<&'static str>,
    /// if set, only these `Point` names are scheduling points (fs sites included)
    pub only_points: Option<Vec<&'static str>>,
    pub tick_budget: usize,
    pub keep_log: bool,
    /// default choice beyond the prefix: false = stay with the running thread (background
    /// threads run only when everybody else blocks), true = always run the enabled thread that
    /// registered last (threads spawned by the logger run as early as possible)
    pub eager_others: bool,
    /// lock kinds whose `Acquire` is only a scheduling point: the thread then really blocks on
    /// the primitive (needs `detect_real_blocking`)
    pub nonblocking_locks: Vec<&'static str>,
    /// a granted thread that the kernel reports as sleeping in a futex wait for 5 consecutive
    /// observations (10 ms apart) is taken for blocked on an unmodelled primitive; the token goes to another thread, the blocked one re-joins the
    /// protocol at its next hook
    pub detect_real_blocking: bool,
    /// lock kinds whose `Release` is followed by a scheduling point: a thread can be preempted
    /// right after it gave the lock back (what it does next without any hook - flushing a writer
    /// it took out of the shared state, say - can then fall behind another thread's operations)
    pub points_after_release: Vec<&'static str>,
}

impl Sched {
    pub fn new(cfg: SchedCfg) -> Arc<Self> {
        Arc::new(Self {
            inner: Mutex::new(Inner {
                threads: Vec::new(),
                running: None,
                locks: HashMap::new(),
                shadow: HashMap::new(),
                chans: HashMap::new(),
                tick_budget: HashMap::new(),
                default_tick_budget: cfg.tick_budget,
                registered: HashMap::new(),
                claimed: HashMap::new(),
                prefix: cfg.prefix,
                points: Vec::new(),
                abort: None,
                ending: false,
                ignore: cfg.ignore,
                points_after_release: cfg.points_after_release,
                only_points: cfg.only_points,
                eager_others: cfg.eager_others,
                nonblocking_locks: cfg.nonblocking_locks,
                detect_real_blocking: cfg.detect_real_blocking,
                last_progress: Instant::now(),
                asleep: 0,
                internal_wait: 0,
                all_blocked_since: None,
                log: Vec::new(),
                keep_log: cfg.keep_log,
            }),
            cv: Condvar::new(),
        })
    }

    fn lock(&self) -> MutexGuard<'_, Inner> {
        self.inner.lock().unwrap_or_else(|e| e.into_inner())
    }

    fn my_tid(g: &Inner) -> Option<usize> {
        let me = std::thread::current().id();
        g.threads.iter().position(|t| t.os == me && t.state != TState::Finished)
    }

    fn enabled(g: &Inner, tid: usize) -> bool {
        let t = &g.threads[tid];
        if t.state != TState::Parked {
            return false;
        }
        match t.pending.as_ref() {
            None => true,
            Some(Op::Acquire(k, id)) => !g.locks.contains_key(&(*k, *id)),
            Some(Op::Recv(k, id)) => g.chans.get(&(*k, *id)).copied().unwrap_or(0) > 0,
            Some(Op::Join(os)) => g
                .threads
                .iter()
                .filter(|x| x.os == *os)
                .all(|x| x.state == TState::Finished),
            Some(Op::Tick(k)) => g.tick_budget.get(k).copied().unwrap_or(g.default_tick_budget) > 0,
            Some(_) => true,
        }
    }

    fn apply_grant(g: &mut Inner, tid: usize) {
        let op = g.threads[tid].pending.take();
        match op {
            Some(Op::Acquire(k, id)) => {
                g.locks.insert((k, id), tid);
            }
            Some(Op::Recv(k, id)) => {
                *g.chans.entry((k, id)).or_insert(0) -= 1;
            }
            Some(Op::Send(k, id)) => {
                *g.chans.entry((k, id)).or_insert(0) += 1;
            }
            Some(Op::Tick(k)) => {
                let d = g.default_tick_budget;
                let e = g.tick_budget.entry(k).or_insert(d);
                *e = e.saturating_sub(1);
            }
            _ => {}
        }
        if let Some(w) = g.threads[tid].want {
            // about to take an unmodelled lock: if nobody holds it, it gets it at once; else it
            // is expected to block for real (`want` stays set)
            if !g.shadow.contains_key(&w) {
                g.shadow.insert(w, tid);
                g.threads[tid].want = None;
            }
        }
        g.threads[tid].state = TState::Running;
        g.running = Some(tid);
        g.last_progress = Instant::now();
        g.asleep = 0;
        g.all_blocked_since = None;
    }

    /// Chooses the next thread to run. `from` is the thread that made the step (now parked or
    /// finished).
    fn choose(&self, g: &mut Inner, from: usize) {
        if g.ending || g.abort.is_some() {
            return;
        }
        let mut en: Vec<usize> = (0..g.threads.len()).filter(|t| Self::enabled(g, *t)).collect();
        let running_enabled = en.contains(&from);
        if running_enabled {
            en.retain(|t| *t != from);
            en.insert(0, from);
        }
        if en.is_empty() {
            let alive_harness = g
                .threads
                .iter()
                .any(|t| t.harness && t.state != TState::Finished);
            g.running = None;
            if g.threads.iter().any(|t| t.state == TState::Blocked) {
                // somebody is blocked for real and will come back
                return;
            }
            if alive_harness {
                let desc = g
                    .threads
                    .iter()
                    .enumerate()
                    .filter(|(_, t)| t.state != TState::Finished)
                    .map(|(i, t)| format!("T{i}({}) waits at {:?}", t.kind, t.pending))
                    .collect::<Vec<_>>()
                    .join("; ");
                g.abort = Some(Abort::Deadlock(desc));
                g.ending = true;
            }
            return;
        }
        let idx = g.points.len();
        let choice = if idx < g.prefix.len() {
            g.prefix[idx]
        } else if g.eager_others {
            // background threads first: the enabled thread that registered last
            en.iter().enumerate().max_by_key(|(_, t)| **t).map_or(0, |(i, _)| i)
        } else {
            0
        };
        if choice >= en.len() {
            g.abort = Some(Abort::Diverged(format!(
                "choice {choice} at point {idx} but only {} enabled",
                en.len()
            )));
            g.ending = true;
            return;
        }
        let tid = en[choice];
        let ops = en
            .iter()
            .map(|t| format!("T{t}:{:?}", g.threads[*t].pending))
            .collect();
        g.points.push(ChoicePoint {
            enabled: en,
            chosen: choice,
            running_enabled,
            ops,
        });
        if g.keep_log {
            let l = format!("grant T{tid} {:?}", g.threads[tid].pending);
            g.log.push(l);
        }
        Self::apply_grant(g, tid);
    }

    /// Parks the calling (registered) thread until it is granted the token.
    fn wait_for_grant(&self, mut g: MutexGuard<'_, Inner>, tid: usize) {
        loop {
            if g.ending {
                drop(g);
                std::panic::resume_unwind(Box::new(EndOfExecution));
            }
            if g.running == Some(tid) && g.threads[tid].state == TState::Running {
                return;
            }
            if g.detect_real_blocking {
                // a block that the shadow of an unmodelled lock predicts is confirmed quickly
                let expected = g.running.is_some_and(|r| g.threads[r].want.is_some_and(|w| g.shadow.get(&w).is_some_and(|h| *h != r)));
                let (ng, to) = self
                    .cv
                    .wait_timeout(g, Duration::from_millis(if expected { 1 } else { 10 }))
                    .unwrap_or_else(|e| e.into_inner());
                g = ng;
                if to.timed_out() && g.internal_wait == 0 && g.running.is_none() && !g.ending {
                    // nobody runs, nobody can be granted the token: if the threads that are
                    // blocked for real stay blocked (the kernel says so, for 1.5 s), nobody
                    // will ever wake them - a deadlock on primitives the model does not know
                    let none_enabled = !(0..g.threads.len()).any(|t| Self::enabled(&g, t));
                    let blocked: Vec<usize> = (0..g.threads.len()).filter(|t| g.threads[*t].state == TState::Blocked).collect();
                    if none_enabled && !blocked.is_empty() && blocked.iter().all(|t| kernel_blocked(g.threads[*t].ktid)) {
                        let since = *g.all_blocked_since.get_or_insert_with(Instant::now);
                        if since.elapsed() > Duration::from_millis(1500) {
                            let desc = g
                                .threads
                                .iter()
                                .enumerate()
                                .filter(|(_, t)| t.state != TState::Finished)
                                .map(|(i, t)| if t.state == TState::Blocked { format!("T{i}({}) is blocked for real (in a lock or wait no hook announces)", t.kind) } else { format!("T{i}({}) waits at {:?}", t.kind, t.pending) })
                                .collect::<Vec<_>>()
                                .join("; ");
                            g.abort = Some(Abort::Deadlock(desc));
                            g.ending = true;
                            self.cv.notify_all();
                        }
                    } else {
                        g.all_blocked_since = None;
                    }
                }
                if to.timed_out() && g.internal_wait == 0 {
                    if let Some(r) = g.running {
                        // independent of machine load: a thread that merely waits for a CPU is
                        // runnable ('R'); only a thread that sleeps in a futex wait (mutex, join)
                        // for several consecutive observations is blocked
                        if g.threads[r].state == TState::Running && kernel_blocked(g.threads[r].ktid) {
                            g.asleep += 1;
                        } else {
                            g.asleep = 0;
                        }
                        if g.threads[r].state == TState::Running && (g.asleep >= if expected { 3 } else { 5 } || g.last_progress.elapsed() > Duration::from_secs(3)) {
                            g.asleep = 0;
                            g.threads[r].state = TState::Blocked;
                            g.threads[r].awaiting = g.threads[r].want;
                            if g.keep_log {
                                g.log.push(format!("T{r} blocks for real"));
                            }
                            g.running = None;
                            self.choose(&mut g, r);
                            self.cv.notify_all();
                        }
                    }
                }
            } else {
                g = self.cv.wait(g).unwrap_or_else(|e| e.into_inner());
            }
        }
    }

    /// Before a choice: a thread that blocked for real on an unmodelled lock which (according to
    /// the hooks) has been released since is on its way to its next hook; the set of enabled
    /// threads is only defined once it has arrived.
    fn settle<'a>(&'a self, mut g: MutexGuard<'a, Inner>) -> MutexGuard<'a, Inner> {
        let t0 = Instant::now();
        // threads blocked on a primitive the hooks do not know at all: they count as still blocked
        // after three consecutive observations (1 ms apart, scheduler state unlocked in between)
        // of the kernel reporting a futex wait; a woken thread is runnable and is waited for
        let mut asleep: HashMap<usize, u32> = HashMap::new();
        loop {
            let mut on_the_way = (0..g.threads.len()).any(|t| {
                let th = &g.threads[t];
                th.state == TState::Blocked && th.awaiting.is_some_and(|w| g.shadow.get(&w).is_none_or(|h| *h == t))
            });
            for t in 0..g.threads.len() {
                if g.threads[t].state == TState::Blocked && g.threads[t].awaiting.is_none() {
                    let n = asleep.entry(t).or_insert(0);
                    if kernel_blocked(g.threads[t].ktid) {
                        *n += 1;
                    } else {
                        *n = 0;
                    }
                    if *n < 3 {
                        on_the_way = true;
                    }
                }
            }
            if !on_the_way || g.ending || g.abort.is_some() {
                return g;
            }
            if t0.elapsed() > Duration::from_secs(3) {
                g.abort = Some(Abort::Diverged("a thread woken from an unmodelled lock did not arrive at its next hook".into()));
                g.ending = true;
                return g;
            }
            let (ng, _) = self.cv.wait_timeout(g, Duration::from_millis(1)).unwrap_or_else(|e| e.into_inner());
            g = ng;
        }
    }

    fn register(self: &Arc<Self>, g: &mut Inner, kind: &str, harness: bool, pending: Option<Op>) -> usize {
        let tid = g.threads.len();
        g.threads.push(T {
            os: std::thread::current().id(),
            // SAFETY: plain syscall without arguments
            ktid: unsafe { libc::syscall(libc::SYS_gettid) } as i64,
            kind: kind.to_string(),
            harness,
            state: TState::Parked,
            pending,
            want: None,
            awaiting: None,
        });
        *g.registered.entry(kind.to_string()).or_insert(0) += 1;
        GUARD.with(|c| {
            *c.borrow_mut() = Some(Guard {
                sched: Arc::clone(self),
                tid,
            });
        });
        tid
    }

    fn is_sched_point(g: &Inner, op: &Op) -> bool {
        match op {
            Op::Point(name) => {
                if let Some(only) = &g.only_points {
                    only.contains(name)
                } else {
                    !g.ignore.contains(name)
                }
            }
            _ => true,
        }
    }

    /// Entry from the hooks.
    pub fn sync_op(self: &Arc<Self>, op: Op) {
        if std::thread::panicking() {
            // hooks reached from destructors while a thread unwinds must never unwind again
            if let Op::Release(k, id) = op {
                let mut g = self.lock();
                if let Some(tid) = Self::my_tid(&g) {
                    if g.locks.get(&(k, id)) == Some(&tid) {
                        g.locks.remove(&(k, id));
                    }
                }
            }
            return;
        }
        let mut g = self.lock();
        if g.ending {
            if matches!(op, Op::Release(..)) {
                return;
            }
            // end of execution: controlled threads unwind at their next hook
            if Self::my_tid(&g).is_some() {
                drop(g);
                std::panic::resume_unwind(Box::new(EndOfExecution));
            }
            return;
        }
        let me = Self::my_tid(&g);
        match (&op, me) {
            (Op::Release(k, id), Some(tid)) => {
                if g.locks.get(&(*k, *id)) == Some(&tid) {
                    g.locks.remove(&(*k, *id));
                }
                if g.shadow.get(&(*k, *id)) == Some(&tid) {
                    g.shadow.remove(&(*k, *id));
                }
                if g.threads[tid].want == Some((*k, *id)) {
                    // took the unmodelled lock (after waiting for it) and gives it back already
                    g.threads[tid].want = None;
                }
                g.last_progress = Instant::now();
                if g.points_after_release.contains(k) && g.running == Some(tid) {
                    drop(g);
                    return self.sync_op(Op::Point("after_release"));
                }
            }
            (Op::Release(..), None) => {}
            (Op::Spawned(kind), _) => {
                // wait (holding the token) until the child has registered and parked
                let kind = (*kind).to_string();
                let c = {
                    let e = g.claimed.entry(kind.clone()).or_insert(0);
                    *e += 1;
                    *e
                };
                let t0 = Instant::now();
                g.internal_wait += 1;
                while g.registered.get(&kind).copied().unwrap_or(0) < c {
                    let (ng, _) = self
                        .cv
                        .wait_timeout(g, Duration::from_millis(200))
                        .unwrap_or_else(|e| e.into_inner());
                    g = ng;
                    if t0.elapsed() > Duration::from_secs(10) {
                        g.abort = Some(Abort::Diverged(format!("spawned thread of kind {kind} never registered")));
                        break;
                    }
                }
                g.internal_wait -= 1;
                g.last_progress = Instant::now();
                g.asleep = 0;
            }
            (_, Some(tid)) => {
                if !Self::is_sched_point(&g, &op) {
                    return;
                }
                let mut next_want = None;
                let op = match op {
                    Op::Acquire(k, id) if g.nonblocking_locks.contains(&k) => {
                        next_want = Some((k, id));
                        Op::Point(k)
                    }
                    o => o,
                };
                // a thread that was taken for blocked re-joins here without holding the token
                let holds = g.running == Some(tid);
                // it is past the unmodelled lock it wanted: it holds it now (unless it has
                // released it on the way, which cleared `want`)
                if let Some(w) = g.threads[tid].want.take() {
                    if !holds {
                        // (the former holder's Release hook may not have run yet)
                        g.shadow.insert(w, tid);
                    }
                }
                g.threads[tid].awaiting = None;
                g.threads[tid].want = next_want;
                g.threads[tid].pending = Some(op);
                g.threads[tid].state = TState::Parked;
                g.last_progress = Instant::now();
                if holds || g.running.is_none() {
                    g = self.settle(g);
                    if g.running == Some(tid) || g.running.is_none() {
                        self.choose(&mut g, tid);
                    }
                }
                self.cv.notify_all();
                self.wait_for_grant(g, tid);
            }
            (_, None) => {
                // a thread flexi_logger spawned itself registers at its first hook
                let name = std::thread::current().name().unwrap_or("").to_string();
                if let Some(kind) = kind_of_thread_name(&name) {
                    let tid = self.register(&mut g, kind, false, Some(op));
                    self.cv.notify_all();
                    self.wait_for_grant(g, tid);
                }
                // any other thread is not under control
            }
        }
    }

    fn finished(&self, tid: usize) {
        let mut g = self.lock();
        if tid >= g.threads.len() || g.threads[tid].state == TState::Finished {
            return;
        }
        let was_running = g.running == Some(tid);
        g.threads[tid].state = TState::Finished;
        g.threads[tid].pending = None;
        g.locks.retain(|_, owner| *owner != tid);
        g.shadow.retain(|_, owner| *owner != tid);
        if was_running || g.running.is_none() {
            // (the token stays with the finished thread while woken threads arrive, so that it is
            // always this thread that makes the choice)
            g = self.settle(g);
            if g.running == Some(tid) || g.running.is_none() {
                g.running = None;
                self.choose(&mut g, tid);
            }
        }
        self.cv.notify_all();
    }

    // ------------------------------------------------------------------ harness API

    /// Registers the calling thread as the driver (thread 0) and gives it the token.
    pub fn start_driver(self: &Arc<Self>) {
        let mut g = self.lock();
        let tid = self.register(&mut g, "driver", true, None);
        g.threads[tid].state = TState::Running;
        g.running = Some(tid);
        g.last_progress = Instant::now();
        g.asleep = 0;
    }

    /// Spawns a controlled harness thread; returns when the child is parked at its start point.
    pub fn spawn(self: &Arc<Self>, name: &str, f: impl FnOnce() + Send + 'static) -> std::thread::JoinHandle<()> {
        let s = Arc::clone(self);
        let kind = format!("h:{name}");
        let before = self.lock().registered.get(&kind).copied().unwrap_or(0);
        let k2 = kind.clone();
        let h = std::thread::Builder::new()
            .name(format!("fxv-{name}"))
            .spawn(move || {
                let tid = {
                    let mut g = s.lock();
                    let tid = s.register(&mut g, &k2, true, Some(Op::Point("start")));
                    s.cv.notify_all();
                    tid
                };
                let r = std::panic::catch_unwind(std::panic::AssertUnwindSafe(|| {
                    let g = s.lock();
                    s.wait_for_grant(g, tid);
                    f();
                }));
                if let Err(p) = r {
                    if !p.is::<EndOfExecution>() {
                        let msg = crate::LAST_PANIC
                            .with(|x| x.borrow_mut().take())
                            .unwrap_or_else(|| "<panic>".into());
                        let mut g = s.lock();
                        g.log.push(format!("PANIC in T{tid}: {msg}"));
                        if g.abort.is_none() {
                            g.abort = Some(Abort::Deadlock(format!("harness thread T{tid} panicked: {msg}")));
                        }
                    }
                }
                // Guard drop marks the thread finished
            })
            .expect("spawn harness thread");
        let mut g = self.lock();
        g.internal_wait += 1;
        while g.registered.get(&kind).copied().unwrap_or(0) <= before {
            g = self.cv.wait(g).unwrap_or_else(|e| e.into_inner());
        }
        g.internal_wait -= 1;
        g.last_progress = Instant::now();
        g.asleep = 0;
        drop(g);
        h
    }

    /// Joins a controlled harness thread (a blocking, modelled operation).
    pub fn join(self: &Arc<Self>, h: std::thread::JoinHandle<()>) {
        self.sync_op(Op::Join(h.thread().id()));
        h.join().ok();
    }

    /// Ends the execution: every parked thread unwinds. Returns the recorded choice points.
    pub fn end(self: &Arc<Self>) -> (Vec<ChoicePoint>, Option<Abort>, Vec<String>) {
        let mut g = self.lock();
        g.ending = true;
        self.cv.notify_all();
        // wait (bounded) until all other threads are gone
        let t0 = Instant::now();
        let me = std::thread::current().id();
        loop {
            let alive = g
                .threads
                .iter()
                .filter(|t| t.state != TState::Finished && t.os != me)
                .count();
            if alive == 0 || t0.elapsed() > Duration::from_secs(2) {
                break;
            }
            let (ng, _) = self
                .cv
                .wait_timeout(g, Duration::from_millis(20))
                .unwrap_or_else(|e| e.into_inner());
            g = ng;
        }
        (g.points.clone(), g.abort.clone(), g.log.clone())
    }

    pub fn aborted(&self) -> Option<Abort> {
        self.lock().abort.clone()
    }
}

// ---------------------------------------------------------------------- explorer

#[derive(Debug, Default, Clone)]
pub struct ExploreStats {
    pub schedules: u64,
    pub choice_points: u64,
    pub max_points: usize,
    pub max_enabled: usize,
    pub bound: usize,
    pub capped: bool,
    /// executions that stalled and were run again
    pub retried_stalls: u64,
}

pub struct Execution<O> {
    pub obs: Option<O>,
    pub points: Vec<ChoicePoint>,
    pub abort: Option<Abort>,
    pub log: Vec<String>,
    pub stalled: bool,
}

/// Runs `body` once under the scheduler with the given choice prefix. `body` runs as the driver
/// thread (thread 0) and uses the `Arc<Sched>` to spawn and join controlled threads.
pub fn run_once<O: Send + 'static>(
    cfg: &SchedCfg,
    prefix: &[usize],
    clock: Option<Arc<crate::hooks::VClock>>,
    body: Arc<dyn Fn(&Arc<Sched>) -> O + Send + Sync>,
) -> Execution<O> {
    let mut c = cfg.clone();
    c.prefix = prefix.to_vec();
    let sched = Sched::new(c);
    let ctx = crate::hooks::Ctx::with_sched(clock, Arc::clone(&sched));
    crate::hooks::set_ctx(Some(ctx));
    let (tx, rx) = std::sync::mpsc::channel();
    let s2 = Arc::clone(&sched);
    let h = std::thread::Builder::new()
        .name("fxv-driver".into())
        .stack_size(4 << 20)
        .spawn(move || {
            s2.start_driver();
            let r = std::panic::catch_unwind(std::panic::AssertUnwindSafe(|| body(&s2)));
            let r = match r {
                Ok(o) => Ok(o),
                Err(p) => {
                    if p.is::<EndOfExecution>() {
                        Err(None)
                    } else {
                        Err(Some(
                            crate::LAST_PANIC
                                .with(|x| x.borrow_mut().take())
                                .unwrap_or_else(|| "<panic>".into()),
                        ))
                    }
                }
            };
            tx.send(r).ok();
        })
        .expect("spawn driver");
    let res = rx.recv_timeout(Duration::from_secs(20));
    let stalled = res.is_err();
    let (points, mut abort, mut log) = sched.end();
    if !stalled {
        h.join().ok();
    }
    crate::hooks::set_ctx(None);
    let obs = match res {
        Ok(Ok(o)) => Some(o),
        Ok(Err(Some(msg))) => {
            log.push(format!("driver panicked: {msg}"));
            if abort.is_none() {
                abort = Some(Abort::Deadlock(format!("driver thread panicked: {msg}")));
            }
            None
        }
        _ => None,
    };
    Execution {
        obs,
        points,
        abort,
        log,
        stalled,
    }
}

/// Depth-first exploration of all schedules with at most `bound` preemptions
/// (`None` = unbounded), calling `on_exec` for every complete execution.
pub fn explore<O: Send + 'static>(
    cfg: &SchedCfg,
    bound: Option<usize>,
    max_schedules: u64,
    clock: &dyn Fn() -> Option<Arc<crate::hooks::VClock>>,
    body: Arc<dyn Fn(&Arc<Sched>) -> O + Send + Sync>,
    on_exec: &mut dyn FnMut(&[usize], &Execution<O>) -> bool,
) -> ExploreStats {
    let mut stats = ExploreStats {
        bound: bound.unwrap_or(usize::MAX),
        ..ExploreStats::default()
    };
    let mut stack: Vec<Vec<usize>> = vec![vec![]];
    while let Some(prefix) = stack.pop() {
        if stats.schedules >= max_schedules {
            stats.capped = true;
            break;
        }
        let mut ex = run_once(cfg, &prefix, clock(), Arc::clone(&body));
        // an execution that does not come to an end within the watchdog time gives no verdict;
        // on a loaded machine that can be the machine: the same schedule is tried again (twice)
        // before it is reported as a stall
        let mut retries = 0;
        while ex.stalled && retries < 2 {
            retries += 1;
            stats.retried_stalls += 1;
            eprintln!("NOTE: an execution stalled (schedule {prefix:?}); trying the same schedule again ({retries})");
            ex = run_once(cfg, &prefix, clock(), Arc::clone(&body));
        }
        stats.schedules += 1;
        stats.choice_points += ex.points.len() as u64;
        stats.max_points = stats.max_points.max(ex.points.len());
        let choices: Vec<usize> = ex.points.iter().map(|p| p.chosen).collect();
        let go_on = on_exec(&choices, &ex);
        if !go_on {
            break;
        }
        if ex.stalled {
            break;
        }
        // children: deviate at every point after the prefix
        let mut pre = 0usize;
        let mut pre_before: Vec<usize> = Vec::with_capacity(ex.points.len());
        for p in &ex.points {
            pre_before.push(pre);
            if p.running_enabled && p.chosen != 0 {
                pre += 1;
            }
        }
        let mut kids = Vec::new();
        for i in prefix.len()..ex.points.len() {
            let p = &ex.points[i];
            stats.max_enabled = stats.max_enabled.max(p.enabled.len());
            for alt in 1..p.enabled.len() {
                let cost = pre_before[i] + usize::from(p.running_enabled);
                if let Some(b) = bound {
                    if cost > b {
                        continue;
                    }
                }
                let mut k = choices[..i].to_vec();
                k.push(alt);
                kids.push(k);
            }
        }
        // DFS order: explore earlier deviations last (stack) — order does not matter for coverage
        for k in kids.into_iter().rev() {
            stack.push(k);
        }
    }
    stats
}
