//! Controlled scheduler (E2). Filled in below.
use flexi_logger::verif_hooks::Op;

pub struct Sched;
impl Sched {
    pub fn sync_op(&self, _op: Op) {}
}
