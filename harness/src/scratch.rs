//! Scratch directories on tmpfs, removed on drop.
use std::path::{Path, PathBuf};
use std::sync::atomic::{AtomicU64, Ordering};

static N: AtomicU64 = AtomicU64::new(0);

pub fn root() -> PathBuf {
    let base = if Path::new("/dev/shm").is_dir() {
        PathBuf::from("/dev/shm")
    } else {
        std::env::temp_dir()
    };
    base.join(format!("fxv.{}", std::process::id()))
}

pub struct Scratch(pub PathBuf);
impl Scratch {
    pub fn new(tag: &str) -> Self {
        let p = root().join(format!("{tag}.{}", N.fetch_add(1, Ordering::Relaxed)));
        std::fs::create_dir_all(&p).expect("create scratch dir");
        Self(p)
    }
    pub fn path(&self) -> &Path {
        &self.0
    }
}
impl Drop for Scratch {
    fn drop(&mut self) {
        std::fs::remove_dir_all(&self.0).ok();
    }
}

pub fn remove_root() {
    std::fs::remove_dir_all(root()).ok();
}

pub fn copy_dir(from: &Path, to: &Path) {
    std::fs::create_dir_all(to).expect("mkdir");
    if let Ok(rd) = std::fs::read_dir(from) {
        for e in rd.flatten() {
            let p = e.path();
            let t = to.join(e.file_name());
            let md = match std::fs::symlink_metadata(&p) {
                Ok(m) => m,
                Err(_) => continue,
            };
            if md.file_type().is_symlink() {
                if let Ok(l) = std::fs::read_link(&p) {
                    std::os::unix::fs::symlink(l, &t).ok();
                }
            } else if md.is_dir() {
                copy_dir(&p, &t);
            } else {
                std::fs::copy(&p, &t).ok();
            }
        }
    }
}
