//! Capturing the process's stdout / stderr (fd 1 / 2) into a file for the duration of a scenario.
use std::io::Write;
use std::path::PathBuf;

pub struct FdCapture {
    fd: i32,
    saved: i32,
    path: PathBuf,
}
impl FdCapture {
    pub fn start(fd: i32, path: PathBuf) -> Option<Self> {
        std::io::stdout().flush().ok();
        std::io::stderr().flush().ok();
        let f = std::fs::OpenOptions::new().create(true).write(true).truncate(true).open(&path).ok()?;
        use std::os::unix::io::IntoRawFd;
        let file_fd = f.into_raw_fd();
        // SAFETY: plain fd juggling on descriptors this process owns
        let saved = unsafe { libc::dup(fd) };
        if saved < 0 {
            unsafe { libc::close(file_fd) };
            return None;
        }
        unsafe {
            libc::dup2(file_fd, fd);
            libc::close(file_fd);
        }
        Some(Self { fd, saved, path })
    }
    pub fn finish(self) -> Vec<u8> {
        std::io::stdout().flush().ok();
        std::io::stderr().flush().ok();
        unsafe {
            libc::dup2(self.saved, self.fd);
            libc::close(self.saved);
        }
        std::fs::read(&self.path).unwrap_or_default()
    }
    /// Ends the redirection without reading the target (for targets like /dev/full).
    pub fn restore(self) {
        std::io::stdout().flush().ok();
        std::io::stderr().flush().ok();
        unsafe {
            libc::dup2(self.saved, self.fd);
            libc::close(self.saved);
        }
    }
    /// Bytes captured so far (the capture stays active).
    pub fn peek(&self) -> Vec<u8> {
        std::io::stdout().flush().ok();
        std::io::stderr().flush().ok();
        std::fs::read(&self.path).unwrap_or_default()
    }
}
