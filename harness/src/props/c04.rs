//! C04 — flush, shutdown and handle drop leave no accepted record behind.
//!
//! (E1) all words over {writes around the buffer capacity, flush, clone-and-drop-the-clone}
//! ending with shutdown() or with dropping the last handle, for write mode x output kind; the
//! output is read immediately (no sleep) after every flush (sync modes) and after the terminal
//! operation. (E2) schedules of the writer / flusher threads against shutdown, see below.
use super::{all_workers, default_cap, Prop};
use crate::capture::FdCapture;
use crate::env::Env;
use crate::family;
use crate::lg::{self, Cfg, CleanK, CritK, ModeK, NamingK};
use crate::rec::Recorder;
use crate::report::{Meta, Out, Violation};
use crate::sched::{self, Abort, Sched, SchedCfg};
use crate::scratch::Scratch;
use crate::{for_each_word, run_isolated, Ran};
use flexi_logger::{ErrorChannel, LogSpecification, Logger, LoggerHandle};
use log::{LevelFilter, Log};
use serde_json::{json, Value};
use std::collections::BTreeMap;
use std::sync::Arc;
use std::time::Duration;

pub fn prop() -> Prop {
    Prop {
        id: "C04",
        meta,
        units,
        run_unit,
        replay,
        bounds,
        wall_cap_s: default_cap,
        max_workers: all_workers,
    }
}

fn meta() -> Meta {
    Meta {
        id: "C04",
        level: "model_checking",
        rule: "E1: every word w t with w over {W(5), W(cap-1), W(cap+1), W(3cap), F, CloneDrop, the one-character record \"S\"} up to length 4 (quick) / 5 (thorough) and t in {shutdown(), drop of the last handle, drop of the last handle while its thread unwinds from a panic}, for write mode {Direct, SupportCapture, BufferDontFlush(32), BufferAndFlush(32), Async{1,16}} x output {file, file+Numbers, file+TimestampsDirect, custom writer, stdout, stderr}; E2: 2-3 writes then shutdown / drop against the async writer thread, the logger's flusher thread (tick budget 2) and a concurrent second shutdown from a handle clone, all schedules with <= 2 (quick) / 3 (thorough) preemptions; states = distinct (configuration, position, pending-in-buffer bytes) model states, transitions = operations + scheduling decisions; non-trivial = a write larger than the capacity or a clone-drop before later writes; plus a compressing rotation as seventh output kind and an auxiliary free-running two-drop pass (sampling); E2 also: flush() racing with the log calls of another thread, then flush() again and immediate read-back; E2 also: log_to_file_and_writer with an asynchronous second FileLogWriter whose file is read after shutdown / drop; the races are judged for a record whose log call completed before the racing call began; variants with the state mutex un-modelled and with shutdown() as racing call; a rotating, directly used FileLogWriter with its flusher thread leaves no empty file; E1 also: words over {W(5), W(cap+1), F, P} of the same length with at least one P (a thread panics inside the file writer while it holds the state mutex, which poisons it) for {Direct, BufferDontFlush, BufferAndFlush} x {file, file+Numbers} x {shutdown, drop}: a record whose log call returns normally after the poisoning is in the output after flush / shutdown / drop",
        assumptions: vec![
            "output is read directly after the call returns (no sleep)".into(),
            "for the custom writer the observable is that flush / shutdown was propagated after the last write".into(),
            "flush() is judged for the synchronous modes only (the property says so)".into(),
        ],
    }
}

const CAP: usize = 32;

#[derive(Clone, Copy, Debug, PartialEq, Eq, Hash)]
enum Op {
    W(usize),
    F,
    CloneDrop,
    /// a record that consists of the single character "S" (what the asynchronous writers use
    /// as a shutdown message on their channel)
    WS,
}
#[derive(Clone, Copy, Debug, PartialEq, Eq, Hash)]
enum Term {
    Shutdown,
    DropLast,
    /// the last handle is dropped while its thread unwinds from a panic
    DropLastUnwinding,
}
#[derive(Clone, Copy, Debug, PartialEq, Eq, Hash)]
enum OutK {
    File,
    FileNum,
    FileTsD,
    Writer,
    Stdout,
    Stderr,
    /// rotation whose (synchronous) cleanup compresses every rotated file at once
    FileNumGz,
    /// log_to_file_and_writer: a file plus a second, asynchronous FileLogWriter; what is read
    /// back is the second writer's file (E2 only)
    FileAndAsyncWriter,
}
const OUTS: [OutK; 7] = [OutK::File, OutK::FileNum, OutK::FileTsD, OutK::Writer, OutK::Stdout, OutK::Stderr, OutK::FileNumGz];
const MODES: [ModeK; 5] = [ModeK::Direct, ModeK::SupportCapture, ModeK::BufDont(CAP), ModeK::BufFlush(CAP, 3_600_000), ModeK::Async(1, 16, 0)];

fn alphabet() -> Vec<Op> {
    vec![Op::W(5), Op::W(CAP - 1), Op::W(CAP + 1), Op::W(3 * CAP), Op::F, Op::CloneDrop, Op::WS]
}
fn depth(tier: &str) -> usize {
    if tier == "quick" {
        4
    } else {
        5
    }
}

fn e1_units() -> usize {
    MODES.len() * OUTS.len() * 3
}
fn units(_tier: &str) -> usize {
    e1_units() + sched_cases().len() + 1 + poison_cases().len()
}
fn bounds(tier: &str) -> Value {
    json!({"e1_configurations": MODES.len() * OUTS.len(), "e1_word_length": depth(tier), "terminal_ops": 3, "poisoned_mutex_configurations": poison_cases().len(), "e2_harnesses": sched_cases().iter().map(|c| c.name).collect::<Vec<_>>(), "e2_preemption_bound": if tier == "quick" { 2 } else { 3 }, "stress_pass": format!("{} free-running rounds of two threads dropping the last two handle clones at the same time (sampling; auxiliary)", stress_rounds(tier))})
}

struct World {
    env: Env,
    _sc: Scratch,
    cap: Option<FdCapture>,
    rec: Option<Recorder>,
    cfg: Cfg,
    out: OutK,
}

fn build(mode: ModeK, out: OutK, in_sched: bool) -> Result<(World, Box<dyn Log>, LoggerHandle), String> {
    let env = if in_sched { Env::in_current("c04") } else { Env::new("c04") };
    let sc = Scratch::new("c04c");
    if !in_sched {
        env.enter();
    }
    let mut cfg = match out {
        OutK::FileNum => Cfg::rot(CritK::Size(40), NamingK::Numbers, CleanK::Never),
        OutK::FileTsD => Cfg::rot(CritK::Size(40), NamingK::TimestampsDirect, CleanK::Never),
        OutK::FileNumGz => Cfg::rot(CritK::Size(40), NamingK::Numbers, CleanK::Gz(100)),
        _ => Cfg::norot(),
    };
    cfg.mode = mode;
    let mut cap = None;
    let mut rec = None;
    let lb = match out {
        OutK::File | OutK::FileNum | OutK::FileTsD | OutK::FileNumGz => cfg.logger(&env.dir, &env.err),
        OutK::FileAndAsyncWriter => {
            let second = flexi_logger::writers::FileLogWriter::builder(flexi_logger::FileSpec::default().directory(env.dir.join("second")).basename("second").suppress_timestamp())
                .format(lg::payload_format)
                .write_mode(ModeK::Async(1, 16, 0).write_mode())
                .try_build()
                .map_err(|e| e.to_string())?;
            Logger::with(LogSpecification::trace())
                .log_to_file_and_writer(flexi_logger::FileSpec::default().directory(&env.dir).basename("app").suppress_timestamp(), Box::new(second))
                .format(lg::payload_format)
                .write_mode(mode.write_mode())
                .error_channel(ErrorChannel::File(env.err.clone()))
        }
        OutK::Writer => {
            let r = Recorder::new(LevelFilter::Trace);
            rec = Some(r.clone());
            Logger::with(LogSpecification::trace()).log_to_writer(Box::new(r)).format(lg::payload_format).write_mode(mode.write_mode()).error_channel(ErrorChannel::File(env.err.clone()))
        }
        OutK::Stdout => {
            cap = FdCapture::start(1, sc.path().join("o.txt"));
            Logger::with(LogSpecification::trace()).log_to_stdout().format(lg::payload_format).write_mode(mode.write_mode()).error_channel(ErrorChannel::File(env.err.clone()))
        }
        OutK::Stderr => {
            cap = FdCapture::start(2, sc.path().join("e.txt"));
            Logger::with(LogSpecification::trace()).log_to_stderr().format(lg::payload_format).write_mode(mode.write_mode()).error_channel(ErrorChannel::File(env.err.clone()))
        }
    };
    match lb.build() {
        Ok((l, h)) => Ok((
            World {
                env,
                _sc: sc,
                cap,
                rec,
                cfg,
                out,
            },
            l,
            h,
        )),
        Err(e) => {
            if let Some(c) = cap {
                c.finish();
            }
            Err(e.to_string())
        }
    }
}

impl World {
    /// What is physically in the output right now.
    fn read(&self) -> Result<Vec<u8>, String> {
        match self.out {
            OutK::File | OutK::FileNum | OutK::FileTsD | OutK::FileNumGz => {
                let scan = family::scan(&self.env.dir, &self.cfg.parts, None, self.cfg.naming(), &[]);
                scan.stream(&self.env.dir)
            }
            OutK::FileAndAsyncWriter => Ok(std::fs::read(self.env.dir.join("second").join("second.log")).unwrap_or_default()),
            OutK::Stdout | OutK::Stderr => Ok(self.cap.as_ref().map(FdCapture::peek).unwrap_or_default()),
            OutK::Writer => Ok(Vec::new()),
        }
    }
    fn close(mut self) {
        if let Some(c) = self.cap.take() {
            c.finish();
        }
        self.env.leave();
    }
}

struct Fail {
    clause: &'static str,
    detail: String,
}

fn expect_all(w: &World, accepted: &[Vec<u8>], clause: &'static str, when: &str) -> Result<(), Fail> {
    if w.out == OutK::Writer {
        // flush / shutdown must have been propagated after the last write
        let ev = w.rec.as_ref().unwrap().events();
        let writes = ev.iter().filter(|e| **e == "write").count();
        if writes != accepted.len() {
            return Err(Fail {
                clause,
                detail: format!("{when}: the custom writer received {writes} of {} records", accepted.len()),
            });
        }
        let last_write = ev.iter().rposition(|e| *e == "write");
        let want = if clause == "missing-after-flush" { "flush" } else { "shutdown" };
        let propagated = match last_write {
            None => true,
            Some(i) => ev[i..].contains(&want),
        };
        if !propagated {
            return Err(Fail {
                clause,
                detail: format!("{when}: `{want}` was not propagated to the custom writer after its last write; events {ev:?}"),
            });
        }
        return Ok(());
    }
    let got = w.read().map_err(|e| Fail { clause, detail: e })?;
    let want: Vec<u8> = accepted.concat();
    if got != want {
        return Err(Fail {
            clause,
            detail: format!("{when}: the output holds {:?}\n   but the records whose log call returned are {:?}", String::from_utf8_lossy(&got), String::from_utf8_lossy(&want)),
        });
    }
    Ok(())
}

fn run_word(mode: ModeK, out: OutK, word: &[Op], term: Term) -> Result<Vec<usize>, Fail> {
    let (w, logger, handle) = build(mode, out, false).map_err(|e| Fail {
        clause: "build-error",
        detail: e,
    })?;
    let r = (|| {
        let mut accepted: Vec<Vec<u8>> = Vec::new();
        let mut shape = Vec::new();
        let mut clone_dropped = false;
        for (i, op) in word.iter().enumerate() {
            match op {
                Op::W(len) => {
                    let msg = lg::payload(0, accepted.len(), len - 1);
                    let mut line = msg.clone().into_bytes();
                    line.push(b'\n');
                    accepted.push(line);
                    lg::log_info(&*logger, &msg);
                }
                Op::WS => {
                    accepted.push(b"S\n".to_vec());
                    lg::log_info(&*logger, "S");
                }
                Op::F => {
                    handle.flush();
                    if !mode.is_async() {
                        expect_all(&w, &accepted, "missing-after-flush", &format!("after op {i} (flush)"))?;
                    }
                }
                Op::CloneDrop => {
                    let c = handle.clone();
                    drop(c);
                    clone_dropped = true;
                }
            }
            w.env.observe();
            shape.push(accepted.iter().map(Vec::len).sum::<usize>() % (CAP + 1));
        }
        let (clause, when) = match term {
            Term::Shutdown => {
                handle.shutdown();
                ("missing-after-shutdown", "after shutdown()")
            }
            Term::DropLast => {
                drop(handle);
                ("missing-after-drop", "after the last handle was dropped")
            }
            Term::DropLastUnwinding => {
                // resume_unwind does not call the panic hook; std::thread::panicking() is true
                // while the handle is dropped
                let _ = std::panic::catch_unwind(std::panic::AssertUnwindSafe(move || {
                    let _h = handle;
                    std::panic::resume_unwind(Box::new("scenario: unwinding with the last handle"));
                }));
                ("missing-after-drop", "after the last handle was dropped by a thread that unwinds from a panic")
            }
        };
        let clause = if clone_dropped && word.iter().rposition(|o| *o == Op::CloneDrop) < word.iter().rposition(|o| matches!(o, Op::W(_) | Op::WS)) { "lost-after-clone-drop" } else { clause };
        expect_all(&w, &accepted, clause, when)?;
        // a rotation happens when a record is about to be written (no word rotates explicitly):
        // no file is left empty
        if matches!(out, OutK::FileNum | OutK::FileTsD) && !accepted.is_empty() {
            let empty: Vec<String> = crate::family::list_names(&w.env.dir).into_iter().filter(|n| std::fs::metadata(w.env.dir.join(n)).is_ok_and(|m| m.is_file() && m.len() == 0)).collect();
            if !empty.is_empty() {
                return Err(Fail {
                    clause: "rotated-without-a-record",
                    detail: format!("{when}: empty files {empty:?} - a rotation took place although no record was about to be written"),
                });
            }
        }
        drop(logger);
        let errs = w.env.errlines();
        if !errs.is_empty() {
            return Err(Fail {
                clause: "error-channel",
                detail: format!("{errs:?}"),
            });
        }
        Ok(shape)
    })();
    w.close();
    r
}

fn cause(mode: ModeK, out: OutK, term: Term) -> String {
    format!("{}/{out:?}/{term:?}", mode_name(mode))
}
fn mode_name(m: ModeK) -> &'static str {
    match m {
        ModeK::Direct => "direct",
        ModeK::SupportCapture => "capture",
        ModeK::BufDont(_) => "buffered",
        ModeK::BufFlush(..) => "buffered+flusher",
        _ => "async",
    }
}

fn judge(mode: ModeK, out: OutK, word: &[Op], term: Term, case: Value) -> (Option<Violation>, Option<Vec<usize>>) {
    let ww = word.to_vec();
    match run_isolated(Duration::from_secs(30), move || run_word(mode, out, &ww, term)) {
        Ran::Done(Ok(s)) => (None, Some(s)),
        Ran::Done(Err(f)) => (Some(Violation::new(f.clause, cause(mode, out, term), format!("mode={mode:?} output={out:?}\n  word={word:?} then {term:?}\n  {}", f.detail), case)), None),
        Ran::Panicked(m) => (Some(Violation::new("panic", cause(mode, out, term), format!("mode={mode:?} output={out:?} word={word:?} {term:?}: {m}"), case)), None),
        Ran::Hung => (Some(Violation::new("deadlock", cause(mode, out, term), format!("mode={mode:?} output={out:?} word={word:?} {term:?}: did not return within 30 s"), case)), None),
    }
}

// ---------------------------------------------------------------- E2

#[derive(Clone)]
struct SCase {
    name: &'static str,
    mode: ModeK,
    out: OutK,
    writes: usize,
    term: Term,
    /// a second thread shuts down through a handle clone concurrently
    second_shutdown: bool,
    tick_budget: usize,
    real_blocking: bool,
    /// the records are logged by a second thread while this one calls flush(); after the join
    /// flush() is called again and the output is read (instead of the terminal operation)
    flush_race: bool,
    /// with flush_race: the racing call is shutdown() instead of flush()
    race_shutdown: bool,
    /// the state mutex is not modelled from its hooks: threads really block on it
    unmodelled_state_lock: bool,
    /// the directly used FileLogWriter is flushed (and read back) before the terminal operation
    flush_first: bool,
}
fn sched_cases() -> Vec<SCase> {
    let c = |name, mode, out, writes, term, second_shutdown, tick_budget, real_blocking| SCase {
        name,
        mode,
        out,
        writes,
        term,
        second_shutdown,
        tick_budget,
        real_blocking,
        flush_race: false,
        race_shutdown: false,
        unmodelled_state_lock: false,
        flush_first: false,
    };
    let mut v = vec![
        c("async-file/shutdown", ModeK::Async(1, 16, 0), OutK::File, 3, Term::Shutdown, false, 0, false),
        c("async-file/drop", ModeK::Async(1, 16, 0), OutK::File, 3, Term::DropLast, false, 0, false),
        c("async-file-rotation/shutdown", ModeK::Async(1, 16, 0), OutK::FileNum, 3, Term::Shutdown, false, 0, false),
        c("async-stdout/shutdown", ModeK::Async(1, 16, 0), OutK::Stdout, 2, Term::Shutdown, false, 0, false),
        c("async-flusher-file/shutdown", ModeK::Async(1, 16, 1), OutK::File, 2, Term::Shutdown, false, 2, false),
        c("buffered-flusher-file/shutdown", ModeK::BufFlush(CAP, 1), OutK::File, 3, Term::Shutdown, false, 2, false),
        c("buffered-flusher-file/drop", ModeK::BufFlush(CAP, 1), OutK::File, 3, Term::DropLast, false, 2, false),
        c("flw-direct/buffered+file-flusher/drop", ModeK::BufFlush(CAP, 1), OutK::File, 3, Term::DropLast, false, 2, false),
        c("flw-direct/async+async-flusher/shutdown", ModeK::Async(1, 16, 1), OutK::File, 2, Term::Shutdown, false, 2, false),
        c("async-file/two-shutdowns", ModeK::Async(1, 16, 0), OutK::File, 2, Term::Shutdown, true, 0, true),
        c("async-stdout/two-shutdowns", ModeK::Async(1, 16, 0), OutK::Stdout, 2, Term::Shutdown, true, 0, true),
    ];
    v.push(c("file+async-second-writer/shutdown", ModeK::Direct, OutK::FileAndAsyncWriter, 3, Term::Shutdown, false, 0, false));
    v.push(c("file+async-second-writer/drop", ModeK::Direct, OutK::FileAndAsyncWriter, 3, Term::DropLast, false, 0, false));
    for (name, mode, out) in [
        ("buffered-file/flush-vs-write", ModeK::BufDont(CAP), OutK::File),
        ("buffered-file-rotation/flush-vs-write", ModeK::BufDont(CAP), OutK::FileNum),
        ("buffered-stdout/flush-vs-write", ModeK::BufDont(CAP), OutK::Stdout),
    ] {
        let mut x = c(name, mode, out, 2, Term::Shutdown, false, 0, false);
        x.flush_race = true;
        v.push(x);
    }
    // the same races with the state mutex un-modelled (a try_lock in place of lock is then not
    // masked by the model), and with shutdown() as the racing call
    for (name, race_shutdown) in [("buffered-file/flush-vs-write/unmodelled-state-lock", false), ("buffered-file/shutdown-vs-write/unmodelled-state-lock", true), ("buffered-file/shutdown-vs-write", true)] {
        let mut x = c(name, ModeK::BufDont(CAP), OutK::File, 1, Term::Shutdown, false, 0, false);
        x.flush_race = true;
        x.race_shutdown = race_shutdown;
        x.unmodelled_state_lock = name.ends_with("unmodelled-state-lock");
        x.real_blocking = x.unmodelled_state_lock;
        v.push(x);
    }
    // the directly used FileLogWriter: flush() first, then the terminal operation
    {
        let mut x = c("flw-direct/buffered+file-flusher/flush-then-drop", ModeK::BufFlush(CAP, 1), OutK::File, 3, Term::DropLast, false, 2, false);
        x.flush_first = true;
        v.push(x);
    }
    v.push(c("flw-direct/buffered+file-flusher-rotation/drop", ModeK::BufFlush(CAP, 1), OutK::File, 2, Term::DropLast, false, 2, false));
    // the flusher thread of a rotating file: it flushes, it does not rotate
    // (two records: the second one takes the file over the limit, then nothing more is logged)
    v.push(c("buffered-flusher-file-rotation/shutdown", ModeK::BufFlush(CAP, 1), OutK::FileNum, 2, Term::Shutdown, false, 2, false));
    v
}

fn sched_cfg(sc: &SCase) -> SchedCfg {
    let mut ignore = vec!["flw_pool_pop", "flw_pool_push", "std_pool_pop", "std_pool_push", "set_max_level", "open", "rename", "cleanup_list", "symlink_remove", "symlink_create", "std_lock"];
    if sc.flush_race {
        // (the acquisition of the stream lock is a scheduling point in the races: a flag that is
        // raised before the lock is taken and lowered by the flush is otherwise invisible)
        ignore.retain(|n| *n != "std_lock");
    }
    let mut nonblocking_locks = if sc.real_blocking { vec!["flw_join", "std_join"] } else { vec![] };
    if sc.unmodelled_state_lock {
        nonblocking_locks.push("flw_state");
    }
    SchedCfg {
        ignore,
        tick_budget: sc.tick_budget,
        detect_real_blocking: sc.real_blocking,
        nonblocking_locks,
        ..SchedCfg::default()
    }
}

type SObs = Result<(), (String, String)>;

/// FileLogWriter used directly (not through a Logger): here the file writer's own flusher thread
/// (`flexi_logger-file_flusher`) exists; the terminal operation is the drop of the writer.
fn flw_direct_body(sc: SCase) -> Arc<dyn Fn(&Arc<Sched>) -> SObs + Send + Sync> {
    use flexi_logger::writers::LogWriter;
    Arc::new(move |_s: &Arc<Sched>| {
        let env = Env::in_current("c04f");
        let mut cfg = if sc.name.contains("rotation") { Cfg::rot(CritK::Size(40), NamingK::Numbers, CleanK::Never) } else { Cfg::norot() };
        cfg.mode = sc.mode;
        let flw = cfg.flw_builder(&env.dir).try_build().map_err(|e| ("build-error".to_string(), e.to_string()))?;
        let mut accepted: Vec<u8> = Vec::new();
        for i in 0..sc.writes {
            let msg = lg::payload(0, i, if i == 1 { CAP + 4 } else { 6 });
            accepted.extend(msg.as_bytes());
            accepted.push(b'\n');
            flw.write(
                &mut flexi_logger::DeferredNow::new(),
                &log::Record::builder().args(format_args!("{msg}")).level(log::Level::Info).target("t").build(),
            )
            .map_err(|e| ("write-error".to_string(), e.to_string()))?;
        }
        // flush() of the writer itself: when it returns, everything is in the file (synchronous
        // modes; the writer's own flusher thread may or may not have run meanwhile)
        if sc.flush_first && !sc.mode.is_async() {
            flw.flush().map_err(|e| ("flush-error".to_string(), e.to_string()))?;
            let got = std::fs::read(env.dir.join("app.log")).unwrap_or_default();
            if got != accepted {
                return Err(("missing-after-flush".to_string(), format!("FileLogWriter::flush() returned: the file holds {:?}, written were {:?}", String::from_utf8_lossy(&got), String::from_utf8_lossy(&accepted))));
            }
        }
        match sc.term {
            Term::Shutdown => flw.shutdown(),
            Term::DropLast | Term::DropLastUnwinding => {}
        }
        drop(flw);
        if sc.name.contains("rotation") {
            // the flusher thread flushes, it does not rotate: a rotation happens when a record is
            // about to be written, so no file is left empty
            let names = crate::family::list_names(&env.dir);
            let empty: Vec<&String> = names.iter().filter(|n| std::fs::metadata(env.dir.join(n)).is_ok_and(|m| m.is_file() && m.len() == 0)).collect();
            let total: usize = names.iter().map(|n| std::fs::read(env.dir.join(n)).map_or(0, |b| b.len())).sum();
            return if !empty.is_empty() {
                Err(("rotated-without-a-record".to_string(), format!("empty files {empty:?} after the FileLogWriter was dropped: a rotation took place although no record was about to be written")))
            } else if total != accepted.len() {
                Err(("missing-after-drop".to_string(), format!("FileLogWriter dropped: the files {names:?} hold {total} bytes, written were {}", accepted.len())))
            } else {
                Ok(())
            };
        }
        let got = std::fs::read(env.dir.join("app.log")).unwrap_or_default();
        if got != accepted {
            return Err(("missing-after-drop".to_string(), format!("FileLogWriter dropped: the file holds {:?}, written were {:?}", String::from_utf8_lossy(&got), String::from_utf8_lossy(&accepted))));
        }
        Ok(())
    })
}

fn sched_body(sc: SCase) -> Arc<dyn Fn(&Arc<Sched>) -> SObs + Send + Sync> {
    if sc.name.starts_with("flw-direct") {
        return flw_direct_body(sc);
    }
    Arc::new(move |s: &Arc<Sched>| {
        let (w, logger, handle) = build(sc.mode, sc.out, true).map_err(|e| ("build-error".to_string(), e))?;
        let w = Arc::new(w);
        let mut accepted: Vec<Vec<u8>> = Vec::new();
        if sc.flush_race {
            let logger: Arc<Box<dyn Log>> = Arc::new(logger);
            for i in 0..sc.writes {
                let msg = lg::payload(0, i, 6);
                let mut line = msg.into_bytes();
                line.push(b'\n');
                accepted.push(line);
            }
            // one record of this thread first: its log call has completed before the racing call
            // begins, so it must be in the output as soon as that call returns
            let first = {
                let msg = lg::payload(9, 0, 6);
                lg::log_info(&**logger, &msg);
                let mut line = msg.into_bytes();
                line.push(b'\n');
                line
            };
            accepted.insert(0, first.clone());
            let l2 = Arc::clone(&logger);
            let n = sc.writes;
            let jh = s.spawn("writer", move || {
                for i in 0..n {
                    lg::log_info(&**l2, &lg::payload(0, i, 6));
                }
            });
            // (a scheduling point of the harness itself: flush() may begin at any moment of the
            // other thread's log calls, also when flush() has no hook of its own on its path)
            s.sync_op(flexi_logger::verif_hooks::Op::Point("harness_before_flush"));
            if sc.race_shutdown {
                handle.shutdown();
            } else {
                handle.flush();
            }
            let early = w.read().unwrap_or_default();
            if !early.windows(first.len()).any(|x| x == first.as_slice()) {
                s.join(jh);
                return Err(("missing-after-flush".to_string(), format!("a record whose log call had completed before {}() was called is not in the output when that call returned (another thread was logging meanwhile); output {:?}", if sc.race_shutdown { "shutdown" } else { "flush" }, String::from_utf8_lossy(&early))));
            }
            s.join(jh);
            if sc.race_shutdown {
                // (what the other thread logged after the shutdown is not promised to anybody)
                drop(logger);
                if let Ok(w) = Arc::try_unwrap(w) {
                    w.close();
                }
                return Ok(());
            }
            // every log call has completed: after this flush the records must be in the output
            handle.flush();
            let res = expect_all(&w, &accepted, "missing-after-flush", "when flush() returned (all log calls had completed; an earlier flush() ran concurrently with them)").map_err(|f| (f.clause.to_string(), f.detail));
            handle.shutdown();
            drop(logger);
            if let Ok(w) = Arc::try_unwrap(w) {
                w.close();
            }
            return res;
        }
        for i in 0..sc.writes {
            let msg = lg::payload(0, i, if i == 1 { CAP + 4 } else { 6 });
            let mut line = msg.clone().into_bytes();
            line.push(b'\n');
            accepted.push(line);
            lg::log_info(&*logger, &msg);
        }
        let accepted = Arc::new(accepted);
        let mut res: SObs = Ok(());
        let second = if sc.second_shutdown {
            let h2 = handle.clone();
            let (w2, a2) = (Arc::clone(&w), Arc::clone(&accepted));
            let slot: Arc<std::sync::Mutex<SObs>> = Arc::new(std::sync::Mutex::new(Ok(())));
            let slot2 = Arc::clone(&slot);
            let jh = s.spawn("second", move || {
                h2.shutdown();
                let r = expect_all(&w2, &a2, "missing-after-shutdown", "when the second, concurrent shutdown() returned").map_err(|f| (f.clause.to_string(), f.detail));
                *slot2.lock().unwrap() = r;
                drop(h2);
            });
            Some((jh, slot))
        } else {
            None
        };
        let (clause, when) = match sc.term {
            Term::Shutdown => {
                handle.shutdown();
                ("missing-after-shutdown", "when shutdown() returned")
            }
            Term::DropLast | Term::DropLastUnwinding => {
                drop(handle);
                ("missing-after-drop", "when the drop of the last handle returned")
            }
        };
        if let Err(f) = expect_all(&w, &accepted, clause, when) {
            res = Err((f.clause.to_string(), f.detail));
        }
        // a rotation happens when a record is about to be written: no file is left empty
        if res.is_ok() && matches!(sc.out, OutK::FileNum | OutK::FileTsD) {
            let empty: Vec<String> = crate::family::list_names(&w.env.dir).into_iter().filter(|n| std::fs::metadata(w.env.dir.join(n)).is_ok_and(|m| m.is_file() && m.len() == 0)).collect();
            if !empty.is_empty() {
                res = Err(("rotated-without-a-record".to_string(), format!("empty files {empty:?} {when}: a rotation took place although no record was about to be written")));
            }
        }
        if let Some((jh, slot)) = second {
            s.join(jh);
            let r2 = slot.lock().unwrap().clone();
            if res.is_ok() {
                res = r2;
            }
        }
        drop(logger);
        if let Ok(w) = Arc::try_unwrap(w) {
            w.close();
        }
        res
    })
}

fn run_sched_unit(tier: &str, idx: usize, out: &mut Out) {
    let scs = sched_cases();
    let sc = scs[idx].clone();
    let bound = if tier == "quick" { 2 } else { 3 };
    let cfg = sched_cfg(&sc);
    let body = sched_body(sc.clone());
    let mut first_bad: Option<Violation> = None;
    let mut machinery: Option<String> = None;
    let mut nontrivial = 0u64;
    let mut outcomes: BTreeMap<String, u64> = BTreeMap::new();
    let clock = || Some(crate::hooks::VClock::new(crate::hooks::base_instant()));
    let cause = format!("{}/{:?}/{:?}/sched:{}", mode_name(sc.mode), sc.out, sc.term, sc.name);
    let stats = sched::explore(&cfg, Some(bound), 200_000, &clock, body.clone(), &mut |choices, ex| {
        if ex.stalled {
            machinery = Some(format!("execution stalled; schedule {choices:?}; log {:?}", ex.log));
            return false;
        }
        if let Some(Abort::Diverged(m)) = &ex.abort {
            machinery = Some(format!("replay diverged: {m}; schedule {choices:?}"));
            return false;
        }
        if ex.points.iter().any(|p| p.running_enabled && p.chosen != 0) {
            nontrivial += 1;
        }
        let case = json!({"kind": "sched", "idx": idx, "schedule": choices});
        let bad: Option<(String, String)> = match (&ex.abort, &ex.obs) {
            (Some(Abort::Deadlock(d)), _) => Some(("deadlock".into(), d.clone())),
            (_, Some(Ok(()))) => {
                *outcomes.entry("ok".into()).or_insert(0) += 1;
                None
            }
            (_, Some(Err((c, d)))) => Some((c.clone(), d.clone())),
            _ => None,
        };
        if let Some((c, d)) = bad {
            *outcomes.entry(format!("BAD {c}")).or_insert(0) += 1;
            if first_bad.as_ref().map_or(true, |v| v.case["schedule"].as_array().map_or(0, Vec::len) > choices.len()) {
                let steps: Vec<String> = ex.points.iter().map(|p| p.ops[p.chosen].clone()).collect();
                first_bad = Some(Violation::new(&c, cause.clone(), format!("harness {}\n  schedule={choices:?}\n  {d}\n  steps: {steps:?}", sc.name), case));
            }
        }
        true
    });
    out.evaluations += stats.schedules;
    out.traces_validated += stats.schedules;
    out.transitions += stats.choice_points;
    out.count("schedules", stats.schedules);
    out.max("max_choice_points_per_schedule", stats.max_points as u64);
    out.max("max_preemption_bound_completed", bound as u64);
    for (k, n) in outcomes {
        *out.outcomes.entry(format!("sched {}: {k}", sc.name)).or_insert(0) += n;
    }
    for i in 0..stats.choice_points.min(1_000_000) {
        out.state(&("s", idx, i));
    }
    for i in 0..nontrivial {
        out.nontrivial(&("s", idx, i));
    }
    if stats.capped {
        out.capped = true;
    }
    if idx == 0 {
        out.sample(json!({"sched_harness": sc.name, "schedules": stats.schedules, "preemption_bound": bound, "max_choice_points": stats.max_points}));
    }
    if let Some(m) = machinery {
        out.violation(Violation::new("machinery", "scheduler", format!("harness {}: {m}", sc.name), json!({"kind": "sched", "idx": idx})));
        out.capped = true;
        return;
    }
    if let Some(v) = first_bad {
        let sch: Vec<usize> = v.case["schedule"].as_array().into_iter().flatten().filter_map(|x| x.as_u64().map(|n| n as usize)).collect();
        let e1 = sched::run_once(&cfg, &sch, clock(), body.clone());
        let e2 = sched::run_once(&cfg, &sch, clock(), body.clone());
        let k = |e: &sched::Execution<SObs>| (e.abort.is_some(), e.obs.as_ref().map(|o| o.as_ref().err().map(|x| x.0.clone())));
        if k(&e1) == k(&e2) && (e1.abort.is_some() || e1.obs.as_ref().is_some_and(Result::is_err)) {
            out.violation(v);
        } else {
            out.violation(Violation::new("nondeterministic", "replay-diverged", v.detail.clone(), v.case.clone()));
        }
    }
}

fn decode(unit: usize) -> (ModeK, OutK, Term) {
    let t = [Term::Shutdown, Term::DropLast, Term::DropLastUnwinding][unit % 3];
    let u = unit / 3;
    (MODES[u / OUTS.len()], OUTS[u % OUTS.len()], t)
}

fn stress_rounds(tier: &str) -> usize {
    if tier == "quick" {
        1500
    } else {
        20_000
    }
}

/// Auxiliary, free-running (sampling; decides nothing on its own): the last two clones of the
/// handle are dropped by two threads at the same moment. The window between "am I the last one"
/// and the release of the clone lies in drop glue, where no hook can sit, so the scheduler cannot
/// enumerate it. After both drops every record must be in the file.
fn stress_two_drops(rounds: usize) -> Option<(usize, String)> {
    use std::sync::atomic::{AtomicUsize, Ordering};
    for round in 0..rounds {
        let env = Env::new("c04s");
        let mut cfg = Cfg::norot();
        cfg.mode = ModeK::BufDont(4096);
        let Ok((logger, handle)) = cfg.logger(&env.dir, &env.err).build() else { continue };
        lg::log_info(&*logger, "only-record");
        let h2 = handle.clone();
        let gate = Arc::new(AtomicUsize::new(0));
        let mut ths = Vec::new();
        for h in [handle, h2] {
            let gate = Arc::clone(&gate);
            ths.push(std::thread::spawn(move || {
                gate.fetch_add(1, Ordering::SeqCst);
                while gate.load(Ordering::SeqCst) < 2 {
                    std::hint::spin_loop();
                }
                drop(h);
            }));
        }
        for t in ths {
            t.join().ok();
        }
        let got = std::fs::read(env.dir.join("app.log")).unwrap_or_default();
        drop(logger);
        if got != b"only-record\n" {
            return Some((round, format!("round {round}: after both clones of the handle were dropped (concurrently, from two threads) the file holds {:?}", String::from_utf8_lossy(&got))));
        }
    }
    None
}

fn run_stress_unit(tier: &str, out: &mut Out) {
    let rounds = stress_rounds(tier);
    let r = run_isolated(Duration::from_secs(600), move || stress_two_drops(rounds));
    out.count("stress_rounds(sampling)", rounds as u64);
    out.evaluations += 1;
    let case = json!({"kind": "stress"});
    match r {
        Ran::Done(None) => out.outcome("stress: all records present"),
        Ran::Done(Some((_, d))) => out.violation(Violation::new("missing-after-drop", "two-concurrent-drops/free-running", d, case)),
        Ran::Panicked(m) => out.violation(Violation::new("panic", "two-concurrent-drops/free-running", m, case)),
        Ran::Hung => out.violation(Violation::new("deadlock", "two-concurrent-drops/free-running", "did not finish within 600 s", case)),
    }
}


// ---------------------------------------------------------------- poisoned state mutex

/// Words over {W(5), W(cap+1), F, P} where P makes a thread panic inside the file writer while it
/// holds the state mutex (the doc-hidden `LoggerHandle::validate_logs` with an expectation that
/// fails), which poisons the mutex. Judged: a record whose log call *returned normally after* the
/// poisoning is in the output after a later flush() (synchronous modes) and after the terminal
/// operation. Records accepted before the poisoning are exempt (a panic inside the logger is not
/// in the property's quantifier; flush and shutdown skip a poisoned writer by design).
#[derive(Clone, Copy, Debug, PartialEq, Eq, Hash)]
enum POp {
    W(usize),
    F,
    P,
}
const PALPHA: [POp; 4] = [POp::W(5), POp::W(CAP + 1), POp::F, POp::P];

fn poison_cases() -> Vec<(ModeK, OutK, Term)> {
    let mut v = Vec::new();
    for mode in [ModeK::Direct, ModeK::BufDont(CAP), ModeK::BufFlush(CAP, 3_600_000)] {
        for out in [OutK::File, OutK::FileNum] {
            for term in [Term::Shutdown, Term::DropLast] {
                v.push((mode, out, term));
            }
        }
    }
    v
}

fn contains_in_order(hay: &[u8], needles: &[Vec<u8>]) -> Option<usize> {
    let mut from = 0;
    for (i, n) in needles.iter().enumerate() {
        match hay[from..].windows(n.len()).position(|w| w == n.as_slice()) {
            Some(p) => from += p + n.len(),
            None => return Some(i),
        }
    }
    None
}

fn run_poison_word(mode: ModeK, out: OutK, word: &[POp], term: Term) -> Result<usize, Fail> {
    let (w, logger, handle) = build(mode, out, false).map_err(|e| Fail {
        clause: "build-error",
        detail: e,
    })?;
    let r = (|| {
        let mut seq = 0usize;
        let mut poisoned = false;
        // lines whose log call returned normally after the poisoning
        let mut after: Vec<Vec<u8>> = Vec::new();
        let mut refused = 0usize;
        let check = |after: &[Vec<u8>], clause: &'static str, when: String| -> Result<(), Fail> {
            let got = w.read().map_err(|e| Fail { clause, detail: e })?;
            match contains_in_order(&got, after) {
                None => Ok(()),
                Some(i) => Err(Fail {
                    clause,
                    detail: format!("{when}: the log call for {:?} returned normally (after a panic inside the writer had poisoned its state mutex) but the record is not in the output {:?}", String::from_utf8_lossy(&after[i]), String::from_utf8_lossy(&got)),
                }),
            }
        };
        for (i, op) in word.iter().enumerate() {
            match op {
                POp::W(len) => {
                    let msg = lg::payload(0, seq, len - 1);
                    seq += 1;
                    let l = &*logger;
                    let ok = std::panic::catch_unwind(std::panic::AssertUnwindSafe(|| lg::log_info(l, &msg))).is_ok();
                    if ok && poisoned {
                        let mut line = msg.into_bytes();
                        line.push(b'\n');
                        after.push(line);
                    } else if !ok {
                        refused += 1;
                    }
                }
                POp::F => {
                    let h = &handle;
                    let ok = std::panic::catch_unwind(std::panic::AssertUnwindSafe(|| h.flush())).is_ok();
                    if ok {
                        check(&after, "missing-after-flush", format!("after op {i} (flush)"))?;
                    }
                }
                POp::P => {
                    let h = &handle;
                    let _ = std::panic::catch_unwind(std::panic::AssertUnwindSafe(|| h.validate_logs(&[("NO-SUCH-LEVEL", "no-such-module", "no-such-message")])));
                    poisoned = true;
                }
            }
        }
        let when = match term {
            Term::Shutdown => {
                handle.shutdown();
                "after shutdown()"
            }
            _ => {
                drop(handle);
                "after the last handle was dropped"
            }
        };
        check(&after, if term == Term::Shutdown { "missing-after-shutdown" } else { "missing-after-drop" }, when.to_string())?;
        drop(logger);
        Ok(after.len() * 100 + refused)
    })();
    w.close();
    r
}

fn run_poison_unit(tier: &str, unit: usize, idx: usize, out: &mut Out) {
    let (mode, outk, term) = poison_cases()[idx];
    let d = depth(tier);
    for_each_word(PALPHA.len(), d, |wi| {
        let word: Vec<POp> = wi.iter().map(|i| PALPHA[*i]).collect();
        let Some(pp) = word.iter().position(|o| *o == POp::P) else { return };
        let case = json!({"kind": "poison", "unit": unit, "idx": idx, "word": wi});
        let cause = format!("{}/{outk:?}/{term:?}/poisoned-state-mutex", mode_name(mode));
        let mut vs = Vec::new();
        let mut obs = None;
        for _ in 0..2 {
            let ww = word.clone();
            match run_isolated(Duration::from_secs(30), move || run_poison_word(mode, outk, &ww, term)) {
                Ran::Done(Ok(n)) => {
                    obs = Some(n);
                    break;
                }
                Ran::Done(Err(f)) => vs.push(Violation::new(f.clause, cause.clone(), format!("mode={mode:?} output={outk:?}\n  word={word:?} then {term:?} (P: a thread panics inside the file writer while holding its state mutex)\n  {}", f.detail), case.clone())),
                Ran::Panicked(m) => vs.push(Violation::new("panic", cause.clone(), format!("mode={mode:?} output={outk:?} word={word:?} {term:?}: {m}"), case.clone())),
                Ran::Hung => vs.push(Violation::new("deadlock", cause.clone(), format!("mode={mode:?} output={outk:?} word={word:?} {term:?}: did not return within 30 s"), case.clone())),
            }
        }
        out.evaluations += 1;
        out.traces_validated += 1;
        out.transitions += word.len() as u64 + 1;
        if let Some(n) = obs {
            out.state(&(unit, pp, n));
            if word[pp..].iter().any(|o| matches!(o, POp::W(_))) {
                out.nontrivial(&(unit, wi));
            }
            out.outcome(format!("poisoned: accepted-after={} refused={}", (n / 100).min(3), (n % 100).min(3)));
        }
        if vs.len() == 2 && vs[0].key() == vs[1].key() {
            out.violation(vs.remove(0));
        } else if !vs.is_empty() {
            out.violation(Violation::new("nondeterministic", "replay-diverged", vs[0].detail.clone(), case));
        }
    });
}

fn run_unit(tier: &str, unit: usize, out: &mut Out) {
    if unit > e1_units() + sched_cases().len() {
        run_poison_unit(tier, unit, unit - e1_units() - sched_cases().len() - 1, out);
        return;
    }
    if unit >= e1_units() + sched_cases().len() {
        run_stress_unit(tier, out);
        return;
    }
    if unit >= e1_units() {
        run_sched_unit(tier, unit - e1_units(), out);
        return;
    }
    let (mode, outk, term) = decode(unit);
    let alpha = alphabet();
    let d = depth(tier);
    for_each_word(alpha.len(), d, |w| {
        let word: Vec<Op> = w.iter().map(|i| alpha[*i]).collect();
        let case = json!({"kind": "hist", "unit": unit, "word": w});
        let (v, shape) = judge(mode, outk, &word, term, case.clone());
        out.evaluations += 1;
        out.traces_validated += 1;
        out.transitions += word.len() as u64 + 1;
        if let Some(s) = shape {
            for (i, x) in s.iter().enumerate() {
                out.state(&(unit, i, x));
            }
            let big = word.iter().any(|o| matches!(o, Op::W(l) if *l > CAP));
            let cd = word.iter().position(|o| *o == Op::CloneDrop).is_some_and(|p| word[p..].iter().any(|o| matches!(o, Op::W(_) | Op::WS)));
            if big || cd {
                out.nontrivial(&(unit, w));
            }
            out.outcome("ok");
            if out.samples.len() < 3 && w.len() == d && cd && big {
                out.sample(json!({"mode": format!("{mode:?}"), "output": format!("{outk:?}"), "word": format!("{word:?}"), "terminal": format!("{term:?}")}));
            }
        }
        if let Some(v) = v {
            let (v2, _) = judge(mode, outk, &word, term, case);
            match v2 {
                Some(v2) if v2.key() == v.key() => out.violation(v),
                _ => out.violation(Violation::new("nondeterministic", "replay-diverged", v.detail.clone(), v.case.clone())),
            }
        }
    });
    out.max("max_depth_completed", d as u64);
}

fn replay(case: &Value) -> Vec<Violation> {
    if case["kind"].as_str() == Some("stress") {
        println!("replay C04: free-running two-drop stress (sampling: a pass proves nothing)");
        let mut out = Out::default();
        run_stress_unit("thorough", &mut out);
        return out.violations;
    }
    if case["kind"].as_str() == Some("poison") {
        let idx = case["idx"].as_u64().unwrap_or(0) as usize;
        let Some((mode, outk, term)) = poison_cases().get(idx).copied() else { return vec![] };
        let word: Vec<POp> = case["word"].as_array().into_iter().flatten().filter_map(|x| x.as_u64().and_then(|n| PALPHA.get(n as usize).copied())).collect();
        println!("replay C04 (poisoned state mutex): mode={mode:?} output={outk:?} word={word:?} then {term:?}");
        let cause = format!("{}/{outk:?}/{term:?}/poisoned-state-mutex", mode_name(mode));
        let ww = word.clone();
        return match run_isolated(Duration::from_secs(30), move || run_poison_word(mode, outk, &ww, term)) {
            Ran::Done(Ok(_)) => vec![],
            Ran::Done(Err(f)) => vec![Violation::new(f.clause, cause, f.detail, case.clone())],
            Ran::Panicked(m) => vec![Violation::new("panic", cause, m, case.clone())],
            Ran::Hung => vec![Violation::new("deadlock", cause, "hung".to_string(), case.clone())],
        };
    }
    if case["kind"].as_str() == Some("sched") {
        let idx = case["idx"].as_u64().unwrap_or(0) as usize;
        let scs = sched_cases();
        let Some(sc) = scs.get(idx) else { return vec![] };
        let sch: Vec<usize> = case["schedule"].as_array().into_iter().flatten().filter_map(|x| x.as_u64().map(|n| n as usize)).collect();
        let mut cfg = sched_cfg(sc);
        cfg.keep_log = true;
        let ex = sched::run_once(&cfg, &sch, Some(crate::hooks::VClock::new(crate::hooks::base_instant())), sched_body(sc.clone()));
        println!("replay C04 (sched harness {}): schedule={sch:?}", sc.name);
        for l in &ex.log {
            println!("  {l}");
        }
        println!("  observation: {:?} abort={:?}", ex.obs, ex.abort);
        let cause = format!("{}/{:?}/{:?}/sched:{}", mode_name(sc.mode), sc.out, sc.term, sc.name);
        return match (&ex.abort, &ex.obs) {
            (Some(Abort::Deadlock(d)), _) => vec![Violation::new("deadlock", cause, d.clone(), case.clone())],
            (_, Some(Err((c, d)))) => vec![Violation::new(c, cause, d.clone(), case.clone())],
            _ => vec![],
        };
    }
    let unit = case["unit"].as_u64().unwrap_or(0) as usize;
    let (mode, outk, term) = decode(unit);
    let alpha = alphabet();
    let w: Vec<usize> = case["word"].as_array().into_iter().flatten().filter_map(|x| x.as_u64().map(|n| n as usize)).collect();
    let word: Vec<Op> = w.iter().filter_map(|i| alpha.get(*i).copied()).collect();
    println!("replay C04: mode={mode:?} output={outk:?} word={word:?} then {term:?}");
    judge(mode, outk, &word, term, case.clone()).0.into_iter().collect()
}
