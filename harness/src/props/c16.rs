//! C16 — log files are named as documented; path-derived specs, listing and symlink agree.
//!
//! (N) every present/absent/empty combination of the name parts x naming: all created names
//!     parse by the documented grammar with ONE start time per run;
//! (P) FileSpec::try_from over a path alphabet: denotes exactly that path, a logger writes there;
//! (L) existing_log_files == reference classifier restricted by the selector, for all selector
//!     combinations, after every operation of rotation/cleanup/compression/restart histories,
//!     and again after the clock moved;
//! (S) the symlink resolves to the file that receives the next record, after every operation.
use super::{all_workers, default_cap, Prop};
use crate::env::Env;
use crate::family::{self, Role};
use crate::fl::{HOp, Hist};
use crate::lg::{self, Cfg, CleanK, CritK, ModeK, NameParts, NamingK, NG};
use crate::report::{Meta, Out, Violation};
use crate::{for_each_word, run_isolated, Ran};
use flexi_logger::{FileSpec, LogfileSelector};
use serde_json::{json, Value};
use std::path::{Path, PathBuf};
use std::time::Duration;

pub fn prop() -> Prop {
    Prop {
        id: "C16",
        meta,
        units,
        run_unit,
        replay,
        bounds,
        wall_cap_s: default_cap,
        max_workers: all_workers,
    }
}

fn meta() -> Meta {
    Meta {
        id: "C16",
        level: "exploration",
        rule: "(N) basename {app, absent, empty, app_ (ends with the separator character)} x discriminant {absent, d, empty, v1.2} x start time on/off x suffix {log, absent, log.txt} x naming (6 schemes + no rotation) x {no cleanup, every rotated file compressed}, history W W T W R W; (P) 10 path shapes x {no rotation, Numbers}; (L) every history up to depth 4 (quick) / 5 (thorough) over {W20, W5, R, T, Restart(append), Restart(no append)} x naming x cleanup {Never, KeepLogFiles(1), KeepCompressedFiles(1), KeepLogAndCompressedFiles(1,1)} with all 16 selector combinations queried after every operation; (S) every history up to depth 5 / 6 over {W20, W5, R, Restart(append), Restart(no append), remove-link-target-and-restart} x naming (also with a start time in the name) x {Direct, buffered} with a symlink; distinct_nontrivial = distinct (sub-check, configuration, history) cases with at least two files in the directory; (N) also with a dotted discriminant, a dotted suffix and with every rotated file compressed; (B) rotate() before or after log_to_file() with the start-time setting left at its default gives the same start-time-free names; (B2) a FileSpec whose path was looked at still obeys a later suppress_timestamp() / use_timestamp(true); (B) also rotate(..).o_rotate(None); (P) also with the oldest rotated file replaced by a symbolic link to its new place",
        assumptions: vec![
            "grammar of file names and family membership written from the FileSpec / Naming documentation (family.rs)".into(),
            "selector semantics: plain = rotated files with the configured suffix (direct namings: including the current file), r_current = file with infix rCURRENT, compressed = .gz files, custom_current(s) = file with infix s".into(),
        ],
    }
}

const LIMIT: u64 = 15;

// ---------------------------------------------------------------- (N) names

#[derive(Clone, Debug)]
struct NCase {
    basename: Option<&'static str>, // None = suppressed, Some("") = empty
    discr: Option<&'static str>,
    starttime: bool,
    suffix: Option<&'static str>,
    naming: Option<NamingK>,
    /// every rotated file is compressed by the cleanup (names: the same plus .gz)
    gz: bool,
}

fn ncases() -> Vec<NCase> {
    let mut v = Vec::new();
    for basename in [Some("app"), None, Some(""), Some("app_")] {
        for discr in [None, Some("d"), Some(""), Some("v1.2")] {
            for starttime in [false, true] {
                for suffix in [Some("log"), None, Some("log.txt")] {
                    for naming in NG.iter().map(|n| Some(*n)).chain([None]) {
                        // degenerate: no name part at all
                        if naming.is_none() && basename.map_or(true, str::is_empty) && discr.map_or(true, str::is_empty) && !starttime {
                            continue;
                        }
                        for gz in [false, true] {
                            if gz && naming.is_none() {
                                continue;
                            }
                            v.push(NCase {
                                basename,
                                discr,
                                starttime,
                                suffix,
                                naming,
                                gz,
                            });
                        }
                    }
                }
            }
        }
    }
    v
}

fn check_names(c: &NCase) -> Result<usize, (String, String)> {
    let env = Env::new("c16n");
    let parts = NameParts {
        basename: c.basename.map(String::from),
        discriminant: c.discr.map(String::from),
        suffix: c.suffix.map(String::from),
        use_timestamp: c.starttime,
    };
    let mut cfg = match c.naming {
        None => Cfg::norot(),
        Some(n) => Cfg::rot(CritK::Size(LIMIT), n, if c.gz { CleanK::Gz(100) } else { CleanK::Never }),
    };
    cfg.parts = parts.clone();
    let start = env.clock.peek().format("%Y-%m-%d_%H-%M-%S").to_string();
    env.enter();
    let mut h = Hist::new(&env, cfg.clone());
    for op in [HOp::W(20), HOp::W(20), HOp::T(1), HOp::W(20), HOp::R, HOp::W(20)] {
        h.apply(op).map_err(|e| ("op-error".to_string(), format!("{e:?}")))?;
    }
    h.stop();
    let lines = h.accepted.len();
    drop(h);
    env.leave();
    // every file lies directly in the configured directory and parses by the grammar
    // reference: absent and empty parts (and their separators) are omitted
    let ref_parts = NameParts {
        basename: c.basename.filter(|b| !b.is_empty()).map(String::from),
        discriminant: c.discr.filter(|d| !d.is_empty()).map(String::from),
        suffix: c.suffix.map(String::from),
        use_timestamp: c.starttime,
    };
    let st = if c.starttime { Some(start.as_str()) } else { None };
    let scan = family::scan(&env.dir, &ref_parts, st, c.naming, &[]);
    if !scan.other.is_empty() {
        return Err(("outside-directory".into(), format!("non-regular entries appeared: {:?}", scan.other)));
    }
    if !scan.foreign.is_empty() {
        return Err((
            "name-grammar".into(),
            format!("created files that do not parse as [basename][_discriminant][_starttime={start}][_infix][.suffix]: {:?} (well-formed: {:?})", scan.foreign, scan.names()),
        ));
    }
    let errs = env.errlines();
    if !errs.is_empty() {
        return Err(("error-channel".into(), format!("{errs:?}")));
    }
    let stream = scan.stream(&env.dir).map_err(|e| ("unreadable".to_string(), e))?;
    if family::split_lines(&stream, "\n").0.len() != lines {
        return Err(("records-elsewhere".into(), format!("the well-named files {:?} hold {} of {lines} records", scan.names(), family::split_lines(&stream, "\n").0.len())));
    }
    // nothing outside the directory
    let outside: Vec<String> = family::list_names(env.root.path()).into_iter().filter(|n| n != "d").collect();
    if !outside.is_empty() {
        return Err(("outside-directory".into(), format!("files next to the configured directory: {outside:?}")));
    }
    Ok(scan.members.len())
}

// ---------------------------------------------------------------- (P) paths

const PATHS: [&str; 10] = ["f.log", "f", ".f", "f.a.b", "d/f.log", "d/e/f.log", "./f.log", "ABS/d/f.x", "d.x/f", "f."];

fn check_path(p: &str, rotate: bool) -> Result<usize, (String, String)> {
    let env = Env::new("c16p");
    let base = env.root.path().to_path_buf();
    std::env::set_current_dir(&base).map_err(|e| ("machinery".to_string(), e.to_string()))?;
    let given: PathBuf = if let Some(rest) = p.strip_prefix("ABS/") { base.join("abs").join(rest) } else { PathBuf::from(p) };
    let fs = match std::panic::catch_unwind(|| FileSpec::try_from(given.clone())) {
        Ok(Ok(fs)) => fs,
        Ok(Err(e)) => return Err(("path!=spec".into(), format!("FileSpec::try_from({p:?}) failed: {e}"))),
        Err(_) => return Err(("panic".into(), format!("FileSpec::try_from({p:?}) panicked: {:?}", crate::LAST_PANIC.with(|x| x.borrow_mut().take())))),
    };
    let denoted = fs.as_pathbuf(None);
    let norm = |q: &Path| -> PathBuf {
        // compare as absolute, lexically normalised paths
        let a = if q.is_absolute() { q.to_path_buf() } else { base.join(q) };
        let mut out = PathBuf::new();
        for comp in a.components() {
            match comp {
                std::path::Component::CurDir => {}
                c => out.push(c.as_os_str()),
            }
        }
        out
    };
    if norm(&denoted) != norm(&given) {
        return Err(("path!=spec".into(), format!("FileSpec::try_from({p:?}).as_pathbuf(None) = {denoted:?}")));
    }
    env.enter();
    let mut l = flexi_logger::Logger::with(flexi_logger::LogSpecification::trace())
        .log_to_file(fs)
        .format(lg::payload_format)
        .error_channel(flexi_logger::ErrorChannel::File(env.err.clone()));
    if rotate {
        l = l.rotate(flexi_logger::Criterion::Size(LIMIT), flexi_logger::Naming::Numbers, flexi_logger::Cleanup::Never);
    }
    let (logger, handle) = l.build().map_err(|e| ("path!=spec".to_string(), format!("a logger for FileSpec::try_from({p:?}) cannot be built: {e}")))?;
    lg::log_info(&*logger, "one");
    lg::log_info(&*logger, "two-two-two-two-two");
    lg::log_info(&*logger, "three");
    lg::log_info(&*logger, "four-four-four-four");
    lg::log_info(&*logger, "five");
    let mut listed: Vec<PathBuf> = handle
        .existing_log_files(&LogfileSelector::default().with_r_current())
        .map_err(|e| ("listing!=directory".to_string(), format!("{p:?}: {e}")))?
        .iter()
        .map(|q| norm(q))
        .collect();
    listed.sort();
    // a rotated file that an operator has moved elsewhere, leaving a symbolic link under the old
    // name, still is an existing file of the family
    let mut listed_with_link: Option<Vec<PathBuf>> = None;
    if rotate {
        if let Some(victim) = listed.first().cloned() {
            let archive = base.join("archive-elsewhere");
            std::fs::create_dir_all(&archive).ok();
            let moved = archive.join(victim.file_name().unwrap());
            if std::fs::rename(&victim, &moved).is_ok() && std::os::unix::fs::symlink(&moved, &victim).is_ok() {
                let mut l2: Vec<PathBuf> = handle
                    .existing_log_files(&LogfileSelector::default().with_r_current())
                    .map_err(|e| ("listing!=directory".to_string(), format!("{p:?}: {e}")))?
                    .iter()
                    .map(|q| norm(q))
                    .collect();
                l2.sort();
                listed_with_link = Some(l2);
                // (back to a plain file for the checks below)
                std::fs::remove_file(&victim).ok();
                std::fs::rename(&moved, &victim).ok();
                std::fs::remove_dir(&archive).ok();
            }
        }
    }
    if let Some(l2) = &listed_with_link {
        if *l2 != listed {
            return Err(("listing!=directory".into(), format!("{p:?}: with the oldest rotated file replaced by a symbolic link to its new place, existing_log_files = {l2:?}, before {listed:?}")));
        }
    }
    handle.shutdown();
    drop(logger);
    drop(handle);
    env.leave();
    let errs = env.errlines();
    if !errs.is_empty() {
        return Err(("error-channel".into(), format!("{p:?}: {errs:?}")));
    }
    // all files below the scratch root
    let mut files: Vec<PathBuf> = Vec::new();
    let mut dirs = vec![base.clone()];
    while let Some(d) = dirs.pop() {
        for n in family::list_names(&d) {
            let q = d.join(&n);
            if q.is_dir() {
                dirs.push(q);
            } else {
                files.push(q);
            }
        }
    }
    files.sort();
    let target = norm(&given);
    let expected: Vec<PathBuf> = if rotate {
        // the infix is inserted in front of the suffix
        let name = target.file_name().unwrap().to_string_lossy().to_string();
        let (stem, ext) = match target.extension() {
            Some(e) => (target.file_stem().unwrap().to_string_lossy().to_string(), format!(".{}", e.to_string_lossy())),
            None => (name.clone(), String::new()),
        };
        let _ = name;
        let mut v: Vec<PathBuf> = ["r00000", "r00001", "rCURRENT"].iter().map(|i| target.with_file_name(format!("{stem}_{i}{ext}"))).collect();
        v.sort();
        v
    } else {
        vec![target.clone()]
    };
    if files != expected {
        return Err(("path!=spec".into(), format!("a logger built from FileSpec::try_from({p:?}) (rotate={rotate}) wrote {files:?}, expected {expected:?}")));
    }
    let total: usize = files.iter().map(|f| std::fs::read(f).map_or(0, |b| b.len())).sum();
    if listed != files {
        return Err(("listing!=directory".into(), format!("a logger built from FileSpec::try_from({p:?}) (rotate={rotate}): existing_log_files = {listed:?}, files = {files:?}")));
    }
    if total != "one\ntwo-two-two-two-two\nthree\nfour-four-four-four\nfive\n".len() {
        return Err(("path!=spec".into(), format!("{p:?}: files hold {total} bytes")));
    }
    Ok(files.len())
}

// ---------------------------------------------------------------- (L) listing

fn selector(bits: usize, custom: Option<&str>) -> LogfileSelector {
    let mut s = if bits & 1 != 0 { LogfileSelector::default() } else { LogfileSelector::none() };
    if bits & 2 != 0 {
        s = s.with_r_current();
    }
    if bits & 4 != 0 {
        s = s.with_compressed_files();
    }
    if let Some(c) = custom {
        s = s.with_custom_current(c);
    }
    s
}

fn reference_listing(dir: &Path, cfg: &Cfg, bits: usize, custom: Option<&str>) -> Vec<String> {
    let scan = family::scan(dir, &cfg.parts, None, cfg.naming(), &[]);
    let mut v: Vec<String> = scan
        .members
        .iter()
        .filter(|m| {
            let cur_infix = cfg.naming().and_then(NamingK::current_infix);
            match (&m.role, m.gz) {
                (_, true) => bits & 4 != 0,
                (Role::Rotated, false) => bits & 1 != 0,
                (Role::Current, false) => (bits & 2 != 0 && cur_infix == Some("rCURRENT")) || (custom.is_some() && custom == cur_infix),
            }
        })
        .map(|m| m.name.clone())
        .collect();
    v.sort();
    v
}

fn listing_alphabet() -> Vec<HOp> {
    vec![HOp::W(20), HOp::W(5), HOp::R, HOp::T(1), HOp::Restart(true), HOp::Restart(false)]
}
fn listing_cfgs() -> Vec<Cfg> {
    let mut v = Vec::new();
    for naming in NG {
        for clean in [CleanK::Never, CleanK::Log(1), CleanK::Gz(1), CleanK::LogGz(1, 1)] {
            v.push(Cfg::rot(CritK::Size(LIMIT), naming, clean));
        }
    }
    // other name shapes: basename suppressed (with and without discriminant), no suffix
    for naming in [NamingK::Numbers, NamingK::Timestamps, NamingK::TimestampsDirect] {
        for (b, d, sfx) in [(None, Some("svc"), Some("log")), (None, None, Some("log")), (Some("app"), Some("svc"), None)] {
            let mut cfg = Cfg::rot(CritK::Size(LIMIT), naming, CleanK::Log(1));
            cfg.parts = NameParts {
                basename: b.map(String::from),
                discriminant: d.map(String::from),
                suffix: sfx.map(String::from),
                use_timestamp: false,
            };
            v.push(cfg);
        }
    }
    v
}

fn check_listing(cfg: &Cfg, word: &[HOp]) -> Result<usize, (String, String)> {
    let env = Env::new("c16l");
    env.enter();
    let mut h = Hist::new(&env, cfg.clone());
    let mut maxfiles = 0;
    for (i, op) in word.iter().enumerate() {
        h.apply(*op).map_err(|e| ("op-error".to_string(), format!("{e:?}")))?;
        let Some(l) = h.live.as_ref() else { continue };
        for bits in 0..8 {
            for custom in [None, Some(lg::CUSTOM_CUR), Some("rCURRENT")] {
                let got = l.handle.existing_log_files(&selector(bits, custom)).map_err(|e| ("listing-error".to_string(), e.to_string()))?;
                let mut got_names: Vec<String> = Vec::new();
                for p in &got {
                    if p.parent() != Some(env.dir.as_path()) {
                        return Err(("listing!=reference".into(), format!("after op {i}: listed path {p:?} is not in the configured directory")));
                    }
                    got_names.push(p.file_name().unwrap().to_string_lossy().to_string());
                }
                got_names.sort();
                got_names.dedup(); // the answer is judged as a set
                let want = reference_listing(&env.dir, cfg, bits, custom);
                maxfiles = maxfiles.max(want.len());
                if got_names != want {
                    return Err((
                        "listing!=reference".into(),
                        format!(
                            "after op {i} ({op:?}), selector plain={} r_current={} compressed={} custom_current={custom:?}:\n   existing_log_files: {got_names:?}\n   directory (reference): {want:?}\n   all files: {:?}",
                            bits & 1 != 0,
                            bits & 2 != 0,
                            bits & 4 != 0,
                            family::list_names(&env.dir)
                        ),
                    ));
                }
            }
        }
    }
    h.stop();
    drop(h);
    env.leave();
    Ok(maxfiles)
}

// ---------------------------------------------------------------- (S) symlink

/// `T(77)` stands for: stop the logger, remove the file the link points to (housekeeping
/// between two runs), advance the clock by one second and start again without append.
const RM_TARGET_RESTART: HOp = HOp::T(77);
fn symlink_alphabet() -> Vec<HOp> {
    vec![HOp::W(20), HOp::W(5), HOp::R, HOp::Restart(false), HOp::Restart(true), RM_TARGET_RESTART]
}

#[allow(dead_code)]
fn check_symlink(naming: Option<NamingK>, mode: ModeK, word: &[HOp]) -> Result<usize, (String, String)> {
    check_symlink2(naming, mode, false, word)
}
fn check_symlink2(naming: Option<NamingK>, mode: ModeK, starttime: bool, word: &[HOp]) -> Result<usize, (String, String)> {
    let env = Env::new("c16s");
    let mut cfg = match naming {
        None => Cfg::norot(),
        Some(n) => Cfg::rot(CritK::Size(LIMIT), n, CleanK::Never),
    };
    cfg.parts.use_timestamp = starttime;
    cfg.symlink = true;
    cfg.mode = mode;
    let link = Cfg::symlink_path(&env.dir);
    env.enter();
    let mut h = Hist::new(&env, cfg.clone());
    let mut files = 0;
    for (i, op) in word.iter().enumerate() {
        if *op == RM_TARGET_RESTART {
            h.stop();
            if let Ok(t) = std::fs::read_link(&link) {
                std::fs::remove_file(&t).ok();
            }
            // what the removed file held is gone by the user's own doing
            h.apply(HOp::T(1)).ok();
            h.apply(HOp::Restart(false)).map_err(|e| ("op-error".to_string(), format!("{e:?}")))?;
            continue;
        }
        h.apply(*op).map_err(|e| ("op-error".to_string(), format!("{e:?}")))?;
        if h.live.is_none() || h.accepted.is_empty() {
            continue;
        }
        // the record that is logged next must arrive in the file the link resolves to. The link
        // is judged after the write (the write may rotate first, which re-creates the link).
        if !matches!(op, HOp::W(_)) {
            continue;
        }
        h.live.as_ref().unwrap().handle.flush();
        let last = h.accepted.last().unwrap().clone();
        let target = std::fs::read_link(&link).map_err(|e| ("symlink-stale".to_string(), format!("after op {i}: cannot read the symlink: {e}")))?;
        let content = std::fs::read(&target).map_err(|e| ("symlink-stale".to_string(), format!("after op {i} ({op:?}): the symlink points to {target:?}, which cannot be read: {e}; files {:?}", family::list_names(&env.dir))))?;
        if !content.ends_with(&last) {
            return Err((
                "symlink-stale".into(),
                format!("after op {i} ({op:?}): the symlink resolves to {:?}, which does not end with the record just written; files {:?}", target.file_name(), family::list_names(&env.dir)),
            ));
        }
        files = files.max(family::list_names(&env.dir).len());
    }
    h.stop();
    drop(h);
    env.leave();
    let errs = env.errlines();
    if !errs.is_empty() {
        return Err(("error-channel".into(), format!("{errs:?}")));
    }
    Ok(files)
}

// ---------------------------------------------------------------- units

// ---------------------------------------------------------------- (B2) setting after evaluation

/// A FileSpec whose path has been looked at (as_pathbuf is public) still obeys a later change of
/// its start-time setting: the documented name grammar depends on the settings, not on history.
fn check_setting_after_evaluation() -> Result<usize, (String, String)> {
    let env = Env::new("c16e");
    env.enter();
    let start = env.clock.peek().format("%Y-%m-%d_%H-%M-%S").to_string();
    let mut n = 0;
    for (what, want_ts) in [("suppress_timestamp", false), ("use_timestamp(true)", true)] {
        for evaluate_first in [false, true] {
            let fs = FileSpec::default().directory(&env.dir).basename("app");
            if evaluate_first {
                let _ = fs.as_pathbuf(None);
            }
            let fs = if want_ts { fs.use_timestamp(true) } else { fs.suppress_timestamp() };
            let name = fs.as_pathbuf(None).file_name().map(|f| f.to_string_lossy().to_string()).unwrap_or_default();
            let want = if want_ts { format!("app_{start}.log") } else { "app.log".to_string() };
            if name != want {
                env.leave();
                return Err(("setting-ignored".into(), format!("FileSpec::default().basename(\"app\"){}.{what}() denotes {name:?}, documented: {want:?}", if evaluate_first { " [as_pathbuf() called here]" } else { "" })));
            }
            n += 1;
        }
    }
    env.leave();
    Ok(n)
}

// ---------------------------------------------------------------- (B) builder call order

/// The names do not depend on the order in which the builder methods are called: with rotation a
/// FileSpec whose start-time setting was left at its default yields names without start time,
/// whether `rotate()` is called before or after `log_to_file()`.
fn check_builder_order(naming: NamingK) -> Result<usize, (String, String)> {
    use flexi_logger::{Cleanup, Criterion, ErrorChannel, LogSpecification, Logger};
    let mut seen: Vec<Vec<String>> = Vec::new();
    for rotate_first in [false, true] {
        let env = Env::new("c16b");
        env.enter();
        let fs = FileSpec::default().directory(&env.dir).basename("app");
        let lb = Logger::with(LogSpecification::trace()).format(lg::payload_format).error_channel(ErrorChannel::File(env.err.clone()));
        let lb = if rotate_first {
            lb.rotate(Criterion::Size(LIMIT), naming.naming(), Cleanup::Never).log_to_file(fs)
        } else {
            lb.log_to_file(fs).rotate(Criterion::Size(LIMIT), naming.naming(), Cleanup::Never)
        };
        let (logger, handle) = lb.build().map_err(|e| ("build-error".to_string(), e.to_string()))?;
        for i in 0..3 {
            lg::log_info(&*logger, &lg::payload(0, i, 19));
            env.observe();
        }
        handle.shutdown();
        drop(logger);
        drop(handle);
        env.leave();
        let parts = NameParts {
            basename: Some("app".into()),
            discriminant: None,
            suffix: Some("log".into()),
            use_timestamp: false,
        };
        let scan = family::scan(&env.dir, &parts, None, Some(naming), &[]);
        if !scan.foreign.is_empty() {
            return Err((
                "name-grammar".into(),
                format!("rotate() called {} log_to_file(), start-time setting of the FileSpec left at its default: created {:?}, which do not parse as app_<infix>.log (with rotation the start time is not part of the name unless asked for)", if rotate_first { "before" } else { "after" }, scan.foreign),
            ));
        }
        seen.push(scan.names());
    }
    // rotate(..) followed by o_rotate(None) (a default overridden from the command line): no
    // rotation - a logger built from a path writes exactly that path
    {
        let env = Env::new("c16b");
        env.enter();
        let path = env.dir.join("plain.trc");
        let fs = FileSpec::try_from(path.clone()).map_err(|e| ("path!=spec".to_string(), e.to_string()))?;
        let (logger, handle) = Logger::with(LogSpecification::trace())
            .format(lg::payload_format)
            .error_channel(ErrorChannel::File(env.err.clone()))
            .log_to_file(fs)
            .rotate(Criterion::Size(LIMIT), naming.naming(), Cleanup::Never)
            .o_rotate(None)
            .build()
            .map_err(|e| ("build-error".to_string(), e.to_string()))?;
        for i in 0..3 {
            lg::log_info(&*logger, &lg::payload(0, i, 19));
        }
        let listed: Vec<std::path::PathBuf> = handle.existing_log_files(&LogfileSelector::default()).unwrap_or_default();
        handle.shutdown();
        drop(logger);
        drop(handle);
        env.leave();
        let names = family::list_names(&env.dir);
        if names != vec!["plain.trc".to_string()] || listed.iter().filter_map(|p| p.file_name()).map(|f| f.to_string_lossy().to_string()).collect::<Vec<_>>() != vec!["plain.trc".to_string()] {
            return Err(("builder-order".into(), format!("rotate(..) followed by o_rotate(None): the logger built from the path plain.trc created {names:?} and lists {listed:?}")));
        }
    }
    if seen[0] != seen[1] {
        return Err(("builder-order".into(), format!("names depend on the order of the builder calls: log_to_file().rotate() gives {:?}, rotate().log_to_file() gives {:?}", seen[0], seen[1])));
    }
    Ok(seen[0].len())
}

fn n_units() -> usize {
    ncases().len().div_ceil(16)
}
fn p_units() -> usize {
    1
}
fn l_units() -> usize {
    listing_cfgs().len() * listing_alphabet().len()
}
fn s_units() -> usize {
    (NG.len() + 1) * 2 + 2
}
fn units(_tier: &str) -> usize {
    n_units() + p_units() + l_units() + s_units()
}
fn bounds(tier: &str) -> Value {
    let q = tier == "quick";
    json!({"name_cases": ncases().len(), "paths": PATHS, "listing_configurations": listing_cfgs().len(), "listing_depth": if q { 4 } else { 5 }, "selector_combinations": 24, "symlink_depth": if q { 5 } else { 6 }})
}

fn isolated<T: Send + 'static>(f: impl FnOnce() -> Result<T, (String, String)> + Send + 'static) -> Result<T, (String, String)> {
    match run_isolated(Duration::from_secs(30), f) {
        Ran::Done(r) => r,
        Ran::Panicked(m) => Err(("panic".into(), m)),
        Ran::Hung => Err(("hang".into(), String::new())),
    }
}

fn parts_vector(c: &NCase) -> String {
    format!(
        "basename:{}/discriminant:{}/starttime:{}/suffix:{}/{}{}",
        match c.basename {
            None => "absent",
            Some("") => "empty",
            Some(b) if b.ends_with('_') => "trailing-underscore",
            _ => "present",
        },
        match c.discr {
            None => "absent",
            Some("") => "empty",
            Some(d) if d.contains('.') => "dotted",
            _ => "present",
        },
        c.starttime,
        match c.suffix {
            None => "absent",
            Some(s) if s.contains('.') => "dotted",
            _ => "present",
        },
        c.naming.map_or("no-rotation", NamingK::short),
        if c.gz { "/compressed" } else { "" }
    )
}

fn run_unit(tier: &str, unit: usize, out: &mut Out) {
    let q = tier == "quick";
    if unit < n_units() {
        for (i, c) in ncases().into_iter().enumerate().skip(unit * 16).take(16) {
            let cc = c.clone();
            out.evaluations += 1;
            match isolated(move || check_names(&cc)) {
                Ok(n) => {
                    if n >= 2 {
                        out.nontrivial(&("N", i));
                    }
                    out.outcome("names-ok");
                    if out.samples.len() < 2 && c.starttime && c.discr == Some("d") {
                        out.sample(json!({"names_case": format!("{c:?}")}));
                    }
                }
                Err((clause, detail)) => out.violation(Violation::new(&clause, parts_vector(&c), format!("{c:?}\n  {detail}"), json!({"kind": "N", "idx": i}))),
            }
        }
        return;
    }
    let u = unit - n_units();
    if u < p_units() {
        out.evaluations += 1;
        match isolated(check_setting_after_evaluation) {
            Ok(_) => out.outcome("setting-after-evaluation-ok"),
            Err((clause, detail)) => out.violation(Violation::new(&clause, "filespec/setting-after-evaluation".to_string(), detail, json!({"kind": "E"}))),
        }
        for naming in NG {
            out.evaluations += 1;
            match isolated(move || check_builder_order(naming)) {
                Ok(n) => {
                    if n >= 2 {
                        out.nontrivial(&("B", naming.short()));
                    }
                    out.outcome("builder-order-ok");
                }
                Err((clause, detail)) => out.violation(Violation::new(&clause, format!("builder-order/{}", naming.short()), detail, json!({"kind": "B", "naming": naming.short()}))),
            }
        }
        for (i, p) in PATHS.iter().enumerate() {
            for rotate in [false, true] {
                out.evaluations += 1;
                let pp = (*p).to_string();
                match isolated(move || check_path(&pp, rotate)) {
                    Ok(n) => {
                        if n >= 2 {
                            out.nontrivial(&("P", i, rotate));
                        }
                        out.outcome("path-ok");
                    }
                    Err((clause, detail)) => out.violation(Violation::new(&clause, format!("path:{p}"), detail, json!({"kind": "P", "idx": i, "rotate": rotate}))),
                }
            }
        }
        return;
    }
    let u = u - p_units();
    if u < l_units() {
        let alpha = listing_alphabet();
        let cfg = listing_cfgs()[u / alpha.len()].clone();
        let first = u % alpha.len();
        let d = if q { 4 } else { 5 };
        for_each_word(alpha.len(), d - 1, |rest| {
            let mut w = vec![first];
            w.extend_from_slice(rest);
            let word: Vec<HOp> = w.iter().map(|i| alpha[*i]).collect();
            out.evaluations += 24 * word.len() as u64;
            let (c2, w2) = (cfg.clone(), word.clone());
            match isolated(move || check_listing(&c2, &w2)) {
                Ok(n) => {
                    if n >= 2 {
                        out.nontrivial(&("L", u, &w));
                    }
                    out.outcome("listing-ok");
                    if out.samples.len() < 3 && w.len() == d && n >= 3 {
                        out.sample(json!({"listing_cfg": format!("{:?}", cfg.rotation), "history": format!("{word:?}"), "selector_combinations_after_each_op": 24}));
                    }
                }
                Err((clause, detail)) => {
                    let (_, n, k) = cfg.rotation.unwrap();
                    out.violation(Violation::new(&clause, format!("{}/{:?}", n.short(), k), format!("cfg={:?}\n  history={word:?}\n  {detail}", cfg.rotation), json!({"kind": "L", "unit": u, "word": w})));
                }
            }
        });
        return;
    }
    let u = u - l_units();
    let starttime = u >= (NG.len() + 1) * 2;
    let naming = if starttime {
        if u % 2 == 0 { None } else { Some(NamingK::Numbers) }
    } else if u / 2 < NG.len() {
        Some(NG[u / 2])
    } else {
        None
    };
    let mode = if u % 2 == 0 || starttime { ModeK::Direct } else { ModeK::BufDont(64) };
    let alpha = symlink_alphabet();
    let d = if q { 5 } else { 6 };
    for_each_word(alpha.len(), d, |w| {
        if w.is_empty() {
            return;
        }
        let word: Vec<HOp> = w.iter().map(|i| alpha[*i]).collect();
        out.evaluations += 1;
        let w2 = word.clone();
        match isolated(move || check_symlink2(naming, mode, starttime, &w2)) {
            Ok(n) => {
                if n >= 3 {
                    out.nontrivial(&("S", u, w));
                }
                out.outcome("symlink-ok");
            }
            Err((clause, detail)) => out.violation(Violation::new(&clause, format!("{}/{}", naming.map_or("no-rotation", NamingK::short), super::c08::mode_class(mode)), format!("naming={naming:?} mode={mode:?}\n  history={word:?}\n  {detail}"), json!({"kind": "S", "unit": u, "word": w}))),
        }
    });
}

fn replay(case: &Value) -> Vec<Violation> {
    let idx = case["idx"].as_u64().unwrap_or(0) as usize;
    let w: Vec<usize> = case["word"].as_array().into_iter().flatten().filter_map(|x| x.as_u64().map(|n| n as usize)).collect();
    let r: Result<usize, (String, String)> = match case["kind"].as_str() {
        Some("N") => {
            let c = ncases()[idx.min(ncases().len() - 1)].clone();
            println!("replay C16 names: {c:?}");
            isolated(move || check_names(&c))
        }
        Some("E") => {
            println!("replay C16: setting after evaluation");
            isolated(check_setting_after_evaluation)
        }
        Some("B") => {
            let naming = NG.into_iter().find(|n| Some(n.short()) == case["naming"].as_str()).unwrap_or(NamingK::Numbers);
            println!("replay C16 builder order: {naming:?}");
            isolated(move || check_builder_order(naming))
        }
        Some("P") => {
            let p = PATHS[idx.min(PATHS.len() - 1)].to_string();
            let rotate = case["rotate"].as_bool().unwrap_or(false);
            println!("replay C16 path: {p:?} rotate={rotate}");
            isolated(move || check_path(&p, rotate))
        }
        Some("L") => {
            let alpha = listing_alphabet();
            let u = case["unit"].as_u64().unwrap_or(0) as usize;
            let cfg = listing_cfgs()[(u / alpha.len()).min(listing_cfgs().len() - 1)].clone();
            let word: Vec<HOp> = w.iter().filter_map(|i| alpha.get(*i).copied()).collect();
            println!("replay C16 listing: {:?} history={word:?}", cfg.rotation);
            isolated(move || check_listing(&cfg, &word))
        }
        _ => {
            let alpha = symlink_alphabet();
            let u = case["unit"].as_u64().unwrap_or(0) as usize;
            let starttime = u >= (NG.len() + 1) * 2;
            let naming = if starttime {
                if u % 2 == 0 { None } else { Some(NamingK::Numbers) }
            } else if u / 2 < NG.len() {
                Some(NG[u / 2])
            } else {
                None
            };
            let mode = if u % 2 == 0 || starttime { ModeK::Direct } else { ModeK::BufDont(64) };
            let word: Vec<HOp> = w.iter().filter_map(|i| alpha.get(*i).copied()).collect();
            println!("replay C16 symlink: naming={naming:?} mode={mode:?} starttime={starttime} history={word:?}");
            isolated(move || check_symlink2(naming, mode, starttime, &word))
        }
    };
    match r {
        Ok(_) => vec![],
        Err((clause, detail)) => vec![Violation::new(&clause, "replay", detail, case.clone())],
    }
}
