//! C17 — specification text forms round-trip; parsing reports exactly the malformed parts.
//!
//! (a) round trip of every specification of the C02 enumeration (without regex) through the
//! Display form, the TOML form and the specfile path; (b) every token string up to a length
//! bound over a 14-token alphabet, compared with a reference parser written from the documented
//! grammar and tolerances.
use super::{all_workers, default_cap, Prop};
use crate::report::{Meta, Out, Violation};
use crate::specref::{grid_of, RefSpec, FILTERS};
use flexi_logger::{FlexiLoggerError, LogSpecification};
use log::LevelFilter;
use serde_json::{json, Value};

pub fn prop() -> Prop {
    Prop {
        id: "C17",
        meta,
        units,
        run_unit,
        replay,
        bounds,
        wall_cap_s: default_cap,
        max_workers: all_workers,
    }
}

fn meta() -> Meta {
    Meta {
        id: "C17",
        level: "exploration",
        rule: "(a) every specification with <= 3 module names from {a, a::b, a::bc, a-b (a dash is part of the name, not an underscore), B (upper case: module names are case-sensitive), error, info} x 6 filters x optional default, built by LogSpecBuilder and by parse, round-tripped through Display, TOML and (<=1 name) the specfile; (b) every string of <= L tokens over {a, a::b, info, OFF, Warn, 5, bogus, =, ',', /, ' ', x(, e-acute, tab} plus single special code points in three contexts, against a reference parser (a text filter installed is exactly the text between the slashes; the entries of the result are, as a multiset, the well-formed parts - also when a name is given twice); distinct_nontrivial = distinct inputs that are either malformed or contain at least two well-formed parts; round trips also with text filters (whatever Display produces parses back); case-mapping look-alikes of level words among the special inputs; lists of 12 / 40 / 400 malformed parts with well-formed parts before, between and after them; one specification with 1500 module filters through every round trip; a specfile that cannot be written when the logger creates it (file size limit 0): the start fails or the file reads back as the initial specification",
        assumptions: vec![
            "inputs with an empty module name or naming a module/default twice are only checked for no-panic and Ok/Err stability (outside the quantifier)".into(),
            "regex validity is decided by the regex crate".into(),
        ],
    }
}

const NAMES: [&str; 7] = ["a", "a::b", "a::bc", "a-b", "B", "error", "info"];
const TARGETS: [&str; 14] = ["a", "a::b", "a::b::c", "a::bcd", "ab", "abc", "a-b", "a_b", "b", "B", "c", "error", "info", ""];
const TOKENS: [&str; 14] = ["a", "a::b", "info", "OFF", "Warn", "5", "bogus", "=", ",", "/", " ", "x(", "é", "\t"];

fn name_sets() -> Vec<Vec<usize>> {
    let n = NAMES.len();
    let mut v = vec![vec![]];
    for a in 0..n {
        v.push(vec![a]);
    }
    for a in 0..n {
        for b in a + 1..n {
            v.push(vec![a, b]);
        }
    }
    for a in 0..n {
        for b in a + 1..n {
            for c in b + 1..n {
                v.push(vec![a, b, c]);
            }
        }
    }
    v
}

fn token_len(tier: &str) -> usize {
    if tier == "quick" {
        6
    } else {
        7
    }
}

fn rt_units() -> usize {
    name_sets().len()
}
fn units(_tier: &str) -> usize {
    rt_units() + 1 + TOKENS.len() * TOKENS.len() + 1
}
fn bounds(tier: &str) -> Value {
    json!({"roundtrip_name_sets": name_sets().len(), "token_alphabet": TOKENS, "max_tokens": token_len(tier),
           "token_strings": crate::word_count(TOKENS.len(), token_len(tier))})
}

// ---------------------------------------------------------------- reference parser

#[derive(Debug, Default, Clone)]
struct RefParse {
    spec: RefSpec,
    malformed: bool,
    structure_broken: bool,
    /// input contains an empty module name or names something twice
    unspecified: bool,
    regex_given_and_valid: bool,
    /// every well-formed part in text order, repetitions included
    all_parts: Vec<(Option<String>, LevelFilter)>,
    wellformed_parts: usize,
}

fn level_word(s: &str) -> Option<LevelFilter> {
    FILTERS
        .iter()
        .copied()
        .find(|f| f.to_string().eq_ignore_ascii_case(s))
}

fn ref_parse(input: &str) -> RefParse {
    let mut r = RefParse::default();
    let pieces: Vec<&str> = input.split('/').collect();
    if pieces.len() > 2 {
        r.malformed = true;
        r.structure_broken = true;
        return r;
    }
    for part in pieces[0].split(',') {
        let part = part.trim();
        if part.is_empty() {
            continue;
        }
        let kv: Vec<&str> = part.split('=').collect();
        let has_ws = |s: &str| s.chars().any(char::is_whitespace);
        let entry: Option<(Option<String>, LevelFilter)> = match kv.len() {
            1 => {
                let p = kv[0].trim();
                if has_ws(p) {
                    None
                } else if let Some(l) = level_word(p) {
                    Some((None, l))
                } else {
                    Some((Some(p.to_string()), LevelFilter::Trace))
                }
            }
            2 => {
                let n = kv[0].trim();
                let l = kv[1].trim();
                if has_ws(n) {
                    None
                } else if l.is_empty() {
                    Some((Some(n.to_string()), LevelFilter::Trace))
                } else {
                    level_word(l).map(|l| (Some(n.to_string()), l))
                }
            }
            _ => None,
        };
        if let Some(e) = &entry {
            r.all_parts.push(e.clone());
        }
        match entry {
            None => r.malformed = true,
            Some((None, l)) => {
                if r.spec.default.is_some() {
                    r.unspecified = true;
                } else {
                    r.spec.default = Some(l);
                }
                r.wellformed_parts += 1;
            }
            Some((Some(n), l)) => {
                if n.is_empty() || r.spec.modules.iter().any(|m| m.0 == n) {
                    r.unspecified = true;
                } else {
                    r.spec.modules.push((n, l));
                }
                r.wellformed_parts += 1;
            }
        }
    }
    if let Some(rx) = pieces.get(1) {
        if regex::Regex::new(rx).is_ok() {
            r.regex_given_and_valid = true;
        } else {
            r.malformed = true;
        }
    }
    r
}

fn token_class(input: &str) -> String {
    // coarse shape of the input for the finding key
    let mut s = String::new();
    let mut last = ' ';
    for c in input.chars() {
        let k = match c {
            '=' => '=',
            ',' => ',',
            '/' => '/',
            c if c.is_whitespace() => '_',
            _ => 'w',
        };
        if k != last || k != 'w' {
            s.push(k);
        }
        last = k;
    }
    s.chars().take(12).collect()
}

fn check_parse(input: &str) -> Result<(bool, bool), (String, String, String)> {
    let r = ref_parse(input);
    let inp = input.to_string();
    let res = std::panic::catch_unwind(move || LogSpecification::parse(&inp));
    let res = match res {
        Ok(x) => x,
        Err(_) => {
            let m = crate::LAST_PANIC.with(|p| p.borrow_mut().take()).unwrap_or_default();
            return Err(("panic".into(), token_class(input), format!("parse({input:?}) panicked: {m}")));
        }
    };
    let again = LogSpecification::parse(input);
    if res.is_ok() != again.is_ok() {
        return Err(("unstable".into(), token_class(input), format!("parse({input:?}) gives Ok and Err on two calls")));
    }
    let nontrivial = r.malformed || r.wellformed_parts >= 2;
    match res {
        Ok(spec) => {
            if r.malformed {
                return Err((
                    "err!=malformed".into(),
                    token_class(input),
                    format!("parse({input:?}) returned Ok(`{spec}`) but the input has a malformed part"),
                ));
            }
            if let Some(d) = parts_differ(&spec, &r.all_parts) {
                return Err(("ok-parts".into(), token_class(input), format!("parse({input:?}) = Ok(`{spec}`): {d}")));
            }
            if !r.unspecified {
                if grid_of(&spec, &TARGETS) != r.spec.grid(&TARGETS) {
                    return Err((
                        "ok-grid!=reference".into(),
                        token_class(input),
                        format!("parse({input:?}) = `{spec}` decides differently from the reference `{}`", r.spec.text()),
                    ));
                }
                if spec.text_filter().is_some() != r.regex_given_and_valid {
                    return Err((
                        "regex-presence".into(),
                        token_class(input),
                        format!("parse({input:?}): regex installed = {}, given = {}", spec.text_filter().is_some(), r.regex_given_and_valid),
                    ));
                }
                // the filter is the text between the slashes, blanks included
                if let (Some(installed), Some(given)) = (spec.text_filter(), input.split('/').nth(1)) {
                    if installed.as_str() != given {
                        return Err(("regex-text".into(), token_class(input), format!("parse({input:?}): the text filter installed is {:?}, the text given is {given:?}", installed.as_str())));
                    }
                }
            }
        }
        Err(FlexiLoggerError::Parse(_msg, spec)) => {
            if !r.malformed {
                return Err((
                    "err!=malformed".into(),
                    token_class(input),
                    format!("parse({input:?}) returned Err although every part is well-formed (reference `{}`)", r.spec.text()),
                ));
            }
            let want_parts = if r.structure_broken { Vec::new() } else { r.all_parts.clone() };
            if let Some(d) = parts_differ(&spec, &want_parts) {
                return Err(("salvage-parts".into(), token_class(input), format!("parse({input:?}) = Err carrying `{spec}`: {d}")));
            }
            if !r.unspecified {
                let want = if r.structure_broken { RefSpec::default() } else { r.spec.clone() };
                if grid_of(&spec, &TARGETS) != want.grid(&TARGETS) {
                    return Err((
                        "salvage!=reference".into(),
                        token_class(input),
                        format!("parse({input:?}) = Err carrying `{spec}`, but the well-formed parts are `{}`", want.text()),
                    ));
                }
            }
        }
        Err(e) => {
            return Err(("error-kind".into(), token_class(input), format!("parse({input:?}) returned unexpected error {e:?}")));
        }
    }
    Ok((nontrivial, r.malformed))
}


/// "contains exactly the well-formed parts": the entries of the specification, as a multiset of
/// (module name, level), are the well-formed parts of the text - also when a name occurs twice
/// (which of the two decides is not specified, that both are kept is).
fn parts_differ(spec: &LogSpecification, want: &[(Option<String>, LevelFilter)]) -> Option<String> {
    let mut got: Vec<(Option<String>, String)> = spec.module_filters().iter().map(|m| (m.module_name.clone(), m.level_filter.to_string())).collect();
    let mut want: Vec<(Option<String>, String)> = want.iter().map(|(n, l)| (n.clone(), l.to_string())).collect();
    got.sort();
    want.sort();
    if got == want {
        None
    } else {
        Some(format!("entries {got:?}, well-formed parts {want:?}"))
    }
}

// ---------------------------------------------------------------- round trip

fn check_roundtrip(r: &RefSpec, with_specfile: bool) -> Result<(), (String, String, String)> {
    let shape = format!("names{}{}", r.modules.len(), if r.default.is_some() { "+default" } else { "" });
    let want = r.grid(&TARGETS);
    let built = r.build();
    let parsed = LogSpecification::parse(r.text())
        .map_err(|e| ("parse-error".to_string(), shape.clone(), format!("parse({:?}): {e}", r.text())))?;
    for (how, spec) in [("builder", &built), ("parse", &parsed)] {
        if grid_of(spec, &TARGETS) != want {
            return Err(("construct!=reference".into(), format!("{shape}/{how}"), format!("spec `{}` built by {how} decides differently from the reference", r.text())));
        }
        // Display round trip
        let text = spec.to_string();
        match LogSpecification::parse(&text) {
            Ok(back) => {
                if grid_of(&back, &TARGETS) != want {
                    return Err(("roundtrip-display".into(), format!("{shape}/{how}"), format!("`{}` --Display--> {text:?} --parse--> `{back}` decides differently", r.text())));
                }
            }
            Err(e) => {
                return Err(("roundtrip-display".into(), format!("{shape}/{how}"), format!("`{}` --Display--> {text:?} is rejected by parse: {e}", r.text())));
            }
        }
        // TOML round trip
        let mut buf = Vec::new();
        spec.to_toml(&mut buf)
            .map_err(|e| ("roundtrip-toml".to_string(), format!("{shape}/{how}"), format!("to_toml failed: {e}")))?;
        let toml = String::from_utf8_lossy(&buf).to_string();
        match LogSpecification::from_toml(&toml) {
            Ok(back) => {
                if grid_of(&back, &TARGETS) != want {
                    return Err(("roundtrip-toml".into(), format!("{shape}/{how}"), format!("`{}` --to_toml/from_toml--> `{back}` decides differently; toml:\n{toml}", r.text())));
                }
            }
            Err(e) => {
                return Err(("roundtrip-toml".into(), format!("{shape}/{how}"), format!("`{}`: from_toml rejects the output of to_toml: {e}\n{toml}", r.text())));
            }
        }
    }
    // with a text filter: the text forms may or may not carry it, but what they produce must still
    // parse back and decide identically (the filter aside) - also for a regex with slashes
    if r.modules.len() <= 1 {
        for re in ["x", "^y$", r"src/main\.rs", "^/var/log/"] {
            let mut r2 = r.clone();
            r2.regex = Some(re.to_string());
            let text = r2.build().to_string();
            match LogSpecification::parse(&text) {
                Ok(back) => {
                    if grid_of(&back, &TARGETS) != want {
                        return Err(("roundtrip-display".into(), format!("{shape}/with-text-filter"), format!("`{}` with text filter {re:?} --Display--> {text:?} --parse--> `{back}` decides differently", r.text())));
                    }
                }
                Err(e) => {
                    return Err(("roundtrip-display".into(), format!("{shape}/with-text-filter"), format!("`{}` with text filter {re:?} --Display--> {text:?} is rejected by parse: {e}", r.text())));
                }
            }
        }
    }
    if with_specfile {
        // first start writes the file, second start (with another initial spec) reads it back
        let sc = crate::scratch::Scratch::new("c17");
        let path = sc.path().join("spec.toml");
        for (i, initial) in [r.build(), LogSpecification::parse("trace").unwrap()].into_iter().enumerate() {
            let (logger, handle) = flexi_logger::Logger::with(initial)
                .do_not_log()
                .error_channel(flexi_logger::ErrorChannel::DevNull)
                .build_with_specfile(&path)
                .map_err(|e| ("roundtrip-specfile".to_string(), shape.clone(), format!("start {i} with specfile failed: {e}")))?;
            let mut got = Vec::new();
            for t in TARGETS {
                for l in crate::specref::LEVELS {
                    got.push(logger.enabled(&log::Metadata::builder().level(l).target(t).build()));
                }
            }
            drop(handle);
            drop(logger);
            if got != want {
                return Err(("roundtrip-specfile".into(), shape.clone(), format!("start {i}: logger with specfile written from `{}` decides differently", r.text())));
            }
        }
    }
    Ok(())
}

fn rt_specs(names: &[usize]) -> Vec<RefSpec> {
    let mut v = Vec::new();
    let k = names.len();
    for d in 0..7 {
        let default = if d == 0 { None } else { Some(FILTERS[d - 1]) };
        let mut idx = vec![0usize; k];
        'outer: loop {
            v.push(RefSpec {
                default,
                modules: names.iter().zip(idx.iter()).map(|(n, l)| (NAMES[*n].to_string(), FILTERS[*l])).collect(),
                regex: None,
            });
            let mut i = k;
            loop {
                if i == 0 {
                    break 'outer;
                }
                i -= 1;
                idx[i] += 1;
                if idx[i] < FILTERS.len() {
                    break;
                }
                idx[i] = 0;
            }
        }
    }
    v
}

const SPECIALS: [char; 16] = [
    '\u{0}', '\u{b}', '\u{85}', '\u{a0}', '\u{2028}', '\u{3000}', '\u{feff}', '\u{200b}', '\u{1f600}', 'ß', 'İ', '\u{212a}', '\u{301}', '"', '\'', '\\',
];

fn special_inputs() -> Vec<String> {
    let mut v = Vec::new();
    for c in SPECIALS {
        v.push(c.to_string());
        v.push(format!("a{c}=info"));
        v.push(format!("a={c}info"));
        v.push(format!("{c}a=info{c},b"));
        v.push(format!("info/{c}"));
        v.push(format!("a,{c},b=warn"));
        // in the interior of a part (Unicode white space there makes the part malformed; at the
        // ends it is trimmed)
        v.push(format!("a{c}b=info"));
        v.push(format!("warn, a{c}b"));
        v.push(format!("a=in{c}fo"));
        v.push(format!("a{c}b=debug, c=info, d{c}e"));
    }
    // multi-byte characters at every byte offset up to ~190, in every kind of part: catches
    // fixed-width or byte-offset assumptions anywhere in parsing or error reporting
    for mb in ["é", "€", "😀"] {
        for pad in 0..4 {
            for m in 1..=48 {
                let x = format!("{}{}", "a".repeat(pad), mb.repeat(m));
                for part in [format!("{x} y"), format!("{x}=b=c"), format!("{x}=wrong"), format!("{x}=info"), x.clone(), format!("a={x}")] {
                    v.push(format!("info, {part}"));
                }
            }
        }
    }
    // many malformed parts with well-formed ones before, between and after them: every
    // well-formed part counts, however long the list of complaints gets
    for n in [12, 40, 400] {
        for bad in ["x=y=z", "a b", "c=wrong", "é=é=é"] {
            let mut parts = vec!["a=trace".to_string()];
            for i in 0..n {
                parts.push(bad.to_string());
                if i == n / 2 {
                    parts.push("a::b=off".to_string());
                }
            }
            parts.push("B=debug".to_string());
            parts.push("warn".to_string());
            v.push(parts.join(", "));
        }
    }
    v.extend(["", "=", "==", "=info", "a=", "a==", "info,info", "a=info,a=warn", "/", "//", "info/", "/x", "a=info/x(", "DEBUG", "a=TrAcE", " a = info , b ", "a b=info", "a=in fo"].map(String::from));
    // characters whose upper / lower case forms are ASCII letters: not level words
    v.extend(["\u{131}nfo", "o\u{fb00}", "a=\u{131}nfo", "a = o\u{fb00}", "warn, \u{131}nfo", "\u{131}nfo, a=warn", "a=\u{fb00}", "a=\u{17f}ilent", "\u{212a}=info", "\u{130}nfo", "a=\u{130}nfo"].map(String::from));
    v
}

fn report(out: &mut Out, res: Result<(bool, bool), (String, String, String)>, case: Value, key_for_nt: &str) {
    match res {
        Ok((nt, malformed)) => {
            if nt {
                out.nontrivial(key_for_nt);
            }
            out.outcome(if malformed { "Err" } else { "Ok" });
        }
        Err((clause, cause, detail)) => out.violation(Violation::new(&clause, cause, detail, case)),
    }
}

fn big_spec() -> RefSpec {
    let mut modules: Vec<(String, LevelFilter)> = (0..1500).map(|i| (format!("filler_module_number_{i:04}::sub_module"), FILTERS[i % FILTERS.len()])).collect();
    modules.push(("a".into(), LevelFilter::Trace));
    modules.push(("a::b".into(), LevelFilter::Off));
    modules.push(("B".into(), LevelFilter::Debug));
    RefSpec {
        default: Some(LevelFilter::Warn),
        modules,
        regex: None,
    }
}


/// The specfile cannot be written (file size limit 0: every write to a file fails with EFBIG)
/// when the logger creates it: either the start fails, or what is in the file parses back to the
/// initial specification - a start that reports success and leaves a file behind that the next
/// start reads as a different specification breaks the round trip.
fn specfile_write_fault() -> Result<&'static str, String> {
    let sc = crate::scratch::Scratch::new("c17w");
    let path = sc.path().join("spec.toml");
    let r = RefSpec {
        default: Some(LevelFilter::Info),
        modules: vec![("a".into(), LevelFilter::Debug)],
        regex: None,
    };
    let mut lim = libc::rlimit { rlim_cur: 0, rlim_max: 0 };
    // SAFETY: plain signal / rlimit calls on this (single-threaded) worker process
    unsafe {
        libc::signal(libc::SIGXFSZ, libc::SIG_IGN);
        if libc::getrlimit(libc::RLIMIT_FSIZE, &mut lim) != 0 {
            return Err("getrlimit failed".into());
        }
        let zero = libc::rlimit { rlim_cur: 0, rlim_max: lim.rlim_max };
        if libc::setrlimit(libc::RLIMIT_FSIZE, &zero) != 0 {
            return Err("setrlimit failed".into());
        }
    }
    let probe_fails = std::fs::write(sc.path().join("probe"), b"x").is_err();
    let started = std::panic::catch_unwind(std::panic::AssertUnwindSafe(|| {
        flexi_logger::Logger::with(r.build()).do_not_log().error_channel(flexi_logger::ErrorChannel::DevNull).build_with_specfile(&path).map(|(l, h)| {
            drop(h);
            drop(l);
        })
    }));
    unsafe { libc::setrlimit(libc::RLIMIT_FSIZE, &lim) };
    if !probe_fails {
        return Err("machinery: a file could be written although the file size limit is 0".into());
    }
    match started {
        Err(_) => Err("the start panicked".into()),
        Ok(Err(_)) => Ok("start failed"),
        Ok(Ok(())) => {
            let text = std::fs::read_to_string(&path).unwrap_or_default();
            match LogSpecification::from_toml(&text) {
                Ok(back) if grid_of(&back, &TARGETS) == r.grid(&TARGETS) => Ok("start succeeded, file intact"),
                other => Err(format!("the specfile could not be written (EFBIG), the start reported success, and the file left behind ({text:?}) reads back as {:?} instead of `{}`", other.map(|s| s.to_string()).map_err(|e| e.to_string()), r.text())),
            }
        }
    }
}

fn run_unit(tier: &str, unit: usize, out: &mut Out) {
    let nrt = rt_units();
    if unit < nrt {
        if unit == 0 {
            // one specification far beyond the size of the others: 1500 module filters, the
            // names that the probe grid looks at come last in every text form
            let r = big_spec();
            out.evaluations += 1;
            out.count("big_specification_roundtrips", 1);
            if let Err((clause, _, detail)) = check_roundtrip(&r, true) {
                out.violation(Violation::new(&clause, "1500-module-filters", detail.chars().take(600).collect::<String>(), json!({"kind": "big-roundtrip"})));
            }
        }
        if unit == 0 {
            out.evaluations += 1;
            match crate::run_isolated(std::time::Duration::from_secs(30), specfile_write_fault) {
                crate::Ran::Done(Ok(o)) => out.outcome(format!("specfile write fault: {o}")),
                crate::Ran::Done(Err(d)) => out.violation(Violation::new("roundtrip-specfile", "write-fault", d, json!({"kind": "specfile-write-fault"}))),
                crate::Ran::Panicked(m) => out.violation(Violation::new("panic", "specfile-write-fault", m, json!({"kind": "specfile-write-fault"}))),
                crate::Ran::Hung => out.violation(Violation::new("hang", "specfile-write-fault", String::new(), json!({"kind": "specfile-write-fault"}))),
            }
        }
        if unit == 0 {
            // module names that are legal identifiers but need care in every text form
            let r = RefSpec {
                default: Some(LevelFilter::Info),
                modules: vec![("e\u{301}x".into(), LevelFilter::Debug), ("हिन्दी::สวัสดี".into(), LevelFilter::Trace), ("a".into(), LevelFilter::Off)],
                regex: None,
            };
            out.evaluations += 1;
            if let Err((clause, _, detail)) = check_roundtrip(&r, true) {
                out.violation(Violation::new(&clause, "names-with-combining-marks", detail.chars().take(600).collect::<String>(), json!({"kind": "roundtrip", "text": r.text(), "specfile": true})));
            }
            // TOML documents with a malformed level: an error, exactly as for the text form
            for doc in ["global_level = 'inf0'", "global_level = 'verbose'", "global_level = 'info'\n[modules]\n'a' = 'inf0'", "[modules]\n'a' = 'warnn'", "global_level = 'info warn'"] {
                out.evaluations += 1;
                if let Ok(spec) = LogSpecification::from_toml(doc) {
                    out.violation(Violation::new("err!=malformed", "toml-level", format!("from_toml({doc:?}) returned Ok(`{spec}`) although a level is malformed"), json!({"kind": "toml-malformed", "doc": doc})));
                }
            }
        }
        let ns = &name_sets()[unit];
        for r in rt_specs(ns) {
            out.evaluations += 1;
            let with_specfile = r.modules.len() <= 1;
            let res = check_roundtrip(&r, with_specfile);
            if r.modules.len() >= 2 {
                out.nontrivial(&r);
            }
            out.outcome("roundtrip");
            if let Err((clause, cause, detail)) = res {
                out.violation(Violation::new(&clause, cause, detail, json!({"kind": "roundtrip", "text": r.text(), "specfile": with_specfile})));
            }
            if out.samples.len() < 2 && r.modules.len() == 3 {
                out.sample(json!({"roundtrip": r.text()}));
            }
        }
        return;
    }
    let u = unit - nrt;
    let k = TOKENS.len();
    let l = token_len(tier);
    let run = |w: &[usize], out: &mut Out| {
        let s: String = w.iter().map(|i| TOKENS[*i]).collect();
        out.evaluations += 1;
        let res = check_parse(&s);
        report(out, res, json!({"kind": "parse", "input": s}), &s);
        if out.samples.len() < 4 && w.len() == l && s.contains('=') && s.contains(',') {
            out.sample(json!({"parse_input": s}));
        }
    };
    if u == 0 {
        crate::for_each_word(k, 1, |w| run(w, out));
        return;
    }
    if u == k * k + 1 {
        for s in special_inputs() {
            out.evaluations += 1;
            let res = check_parse(&s);
            report(out, res, json!({"kind": "parse", "input": s}), &s);
        }
        return;
    }
    let p = u - 1;
    let prefix = [p / k, p % k];
    crate::for_each_word(k, l - 2, |rest| {
        let mut w = prefix.to_vec();
        w.extend_from_slice(rest);
        run(&w, out);
    });
}

fn replay(case: &Value) -> Vec<Violation> {
    let mut out = Out::default();
    match case["kind"].as_str() {
        Some("parse") => {
            let s = case["input"].as_str().unwrap_or("");
            println!("replay C17: parse({s:?}) -> {:?}", LogSpecification::parse(s).map(|x| x.to_string()));
            println!("reference: {:?}", ref_parse(s));
            report(&mut out, check_parse(s), case.clone(), s);
        }
        Some("toml-malformed") => {
            let doc = case["doc"].as_str().unwrap_or("");
            println!("replay C17: from_toml({doc:?}) -> {:?}", LogSpecification::from_toml(doc).map(|x| x.to_string()));
            if let Ok(spec) = LogSpecification::from_toml(doc) {
                out.violation(Violation::new("err!=malformed", "toml-level", format!("from_toml({doc:?}) returned Ok(`{spec}`)"), case.clone()));
            }
        }
        Some("specfile-write-fault") => {
            println!("replay C17: the specfile cannot be written when the logger creates it");
            if let crate::Ran::Done(Err(d)) = crate::run_isolated(std::time::Duration::from_secs(30), specfile_write_fault) {
                out.violation(Violation::new("roundtrip-specfile", "write-fault", d, case.clone()));
            }
        }
        Some("big-roundtrip") => {
            println!("replay C17: round trip of the specification with 1500 module filters");
            if let Err((clause, _, detail)) = check_roundtrip(&big_spec(), true) {
                out.violation(Violation::new(&clause, "1500-module-filters", detail.chars().take(600).collect::<String>(), case.clone()));
            }
        }
        _ => {
            let text = case["text"].as_str().unwrap_or("");
            let r = ref_parse(text).spec;
            println!("replay C17: round trip of `{text}`");
            if let Err((clause, cause, detail)) = check_roundtrip(&r, case["specfile"].as_bool().unwrap_or(false)) {
                out.violation(Violation::new(&clause, cause, detail, case.clone()));
            }
        }
    }
    out.violations
}
