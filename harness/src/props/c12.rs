//! C12 — concurrent specification changes end in one consistent specification and gate.
//!
//! 2 and 3 controlled threads, each with a clone of the `LoggerHandle`, issue one
//! reconfiguration each; *all* interleavings of their internal steps (spec write-lock section,
//! global max-level update) are executed on the real code (no preemption bound).
use super::{default_cap, Prop};
use crate::report::{Meta, Out, Violation};
use crate::sched::{self, Abort, Sched, SchedCfg};
use crate::specref::{RefSpec, LEVELS};
use crate::rec::Recorder;
use flexi_logger::Logger;
use log::{LevelFilter, Log};
use serde_json::{json, Value};
use std::sync::Arc;

pub fn prop() -> Prop {
    Prop {
        id: "C12",
        meta,
        units,
        run_unit,
        replay,
        bounds,
        wall_cap_s: default_cap,
        max_workers: |_| 64,
    }
}

fn meta() -> Meta {
    Meta {
        id: "C12",
        level: "model_checking",
        rule: "for every multiset of 2 (all) or 3 (selected) operations from {set_new_spec(A), parse_new_spec(B), push_temp_spec(C), push_temp_spec(C)+pop_temp_spec, set_new_spec(D)}, every interleaving of the threads' scheduling points (thread start, acquisition of the spec write lock, global max-level update, thread end) is executed under the controlled scheduler; states = choice points visited, transitions = scheduling decisions taken; a schedule is non-trivial when it contains at least one preemption; plus WatcherE (the specfile watcher's path through a guarded hook) as sixth operation and a Probe thread reading log::max_level() at any moment (the additional writer's max_log_level() is a scheduling point): the gate is never below that writer's ceiling; every pair also with the spec lock left un-modelled (real blocking on the RwLock, detected from the kernel thread state); a LogQ thread logs an error record for a module every specification switches off - it is never written; a LogP thread logs an error record for a module every specification admits - it is always written; plus an auxiliary free-running pass (sampling): 60000 / 1.5 M rounds of two simultaneous set_new_spec calls, the state judged after every round; the final specification must be one that some interleaving of the operations' atomic steps produces (set/parse/watcher: install; push_temp_spec: save the active one, then install; pop_temp_spec: install what this handle saved); plus harnesses whose threads share one never-cloned handle by reference",
        assumptions: vec![
            "sequentially consistent interleaving at hook granularity (spec RwLock section and log::set_max_level are the only shared accesses of these operations)".into(),
            "the specfile watcher calls the same WritersHandle::set_new_spec and is covered as another thread".into(),
        ],
    }
}

fn spec(i: usize) -> RefSpec {
    // every specification of the alphabet switches the module q off (see Op::LogQ) and admits
    // errors of the module p (see Op::LogP)
    let m = |d: Option<LevelFilter>, ms: &[(&str, LevelFilter)]| RefSpec {
        default: d,
        modules: ms.iter().map(|(n, l)| ((*n).to_string(), *l)).chain([("q".to_string(), LevelFilter::Off), ("p".to_string(), LevelFilter::Error)]).collect(),
        regex: None,
    };
    match i {
        0 => m(Some(LevelFilter::Trace), &[]),                            // A = trace
        1 => m(Some(LevelFilter::Error), &[("m", LevelFilter::Warn)]),    // B = error,m=warn
        2 => m(None, &[("n", LevelFilter::Info)]),                        // C = off,n=info
        3 => m(Some(LevelFilter::Debug), &[("m", LevelFilter::Off)]),     // D = debug,m=off
        5 => m(Some(LevelFilter::Error), &[]),                            // E = error (below the additional writer's ceiling)
        _ => m(Some(LevelFilter::Info), &[]),                             // initial = info
    }
}
const INITIAL: usize = 4;

#[derive(Clone, Copy, Debug, PartialEq, Eq, Hash, PartialOrd, Ord)]
enum Op {
    SetA,
    ParseB,
    PushC,
    PushPopC,
    SetD,
    /// the specfile watcher's path: LogSpecSubscriber::set_new_spec on its clone of the
    /// WritersHandle (through the guarded hook), with E = error
    WatcherE,
    /// a logging thread's view: reads log::max_level() once, at any moment
    Probe,
    /// a thread that logs an error record for module q, which every specification of the
    /// alphabet switches off: whenever it comes, the record must not be written
    LogQ,
    /// a thread that logs an error record for module p, which every specification of the
    /// alphabet (and the initial one) admits: whenever it comes, the record must be written
    LogP,
    /// set_new_spec(A) / set_new_spec(D) / parse_new_spec(B) through one LoggerHandle that the
    /// threads share by reference and that is never cloned (the methods take &self)
    SharedSetA,
    SharedSetD,
    SharedParseB,
}
const OPS: [Op; 6] = [Op::SetA, Op::ParseB, Op::PushC, Op::PushPopC, Op::SetD, Op::WatcherE];

fn harnesses(tier: &str) -> Vec<Vec<Op>> {
    let mut v = Vec::new();
    for a in 0..OPS.len() {
        for b in a..OPS.len() {
            v.push(vec![OPS[a], OPS[b]]);
        }
    }
    // three threads
    let triples: Vec<[Op; 3]> = if tier == "quick" {
        vec![
            [Op::SetA, Op::ParseB, Op::SetD],
            [Op::SetA, Op::ParseB, Op::PushC],
            [Op::SetA, Op::SetA, Op::ParseB],
            [Op::ParseB, Op::PushC, Op::SetD],
            [Op::SetA, Op::PushPopC, Op::SetD],
            [Op::ParseB, Op::PushC, Op::PushC],
        ]
    } else {
        let mut t = Vec::new();
        for a in 0..OPS.len() {
            for b in a..OPS.len() {
                for c in b..OPS.len() {
                    t.push([OPS[a], OPS[b], OPS[c]]);
                }
            }
        }
        t
    };
    for t in triples {
        v.push(t.to_vec());
    }
    // a logging thread looking at the gate while one or two changes are under way
    for a in 0..OPS.len() {
        v.push(vec![OPS[a], Op::Probe]);
        v.push(vec![OPS[a], Op::LogQ]);
        v.push(vec![OPS[a], Op::LogP]);
    }
    for pair in [[Op::SharedSetA, Op::SharedSetD], [Op::SharedSetA, Op::SharedParseB], [Op::SharedParseB, Op::SharedSetD], [Op::SharedSetA, Op::SharedSetA]] {
        v.push(pair.to_vec());
        v.push(vec![pair[0], pair[1], Op::Probe]);
    }
    for pair in [[Op::SetA, Op::WatcherE], [Op::WatcherE, Op::SetD], [Op::ParseB, Op::WatcherE], [Op::PushPopC, Op::WatcherE]] {
        v.push(vec![pair[0], pair[1], Op::Probe]);
    }
    v
}

/// Pairs that are explored a second time with the spec lock left un-modelled (its hooks are plain
/// scheduling points, threads really block on the RwLock): a change that releases the real lock
/// earlier than the hook scope says is then not masked by the model.
fn unmodelled_pairs() -> Vec<Vec<Op>> {
    let mut v = Vec::new();
    for a in 0..OPS.len() {
        for b in a..OPS.len() {
            v.push(vec![OPS[a], OPS[b]]);
        }
    }
    v
}

fn units(tier: &str) -> usize {
    harnesses(tier).len() + unmodelled_pairs().len() + 1
}

fn stress_rounds(tier: &str) -> usize {
    if tier == "quick" {
        60_000
    } else {
        1_500_000
    }
}

/// Auxiliary, free-running (sampling; decides nothing on its own): two threads call
/// set_new_spec(A = trace) and set_new_spec(E = error) at the same moment, round after round; after
/// each round whichever specification is active must be admitted by the gate. Looks for windows
/// between two hooks that the scheduler cannot enumerate.
fn stress_pairs(rounds: usize) -> Option<String> {
    use std::sync::atomic::{AtomicUsize, Ordering};
    let (logger, handle) = Logger::with(spec(INITIAL).build()).log_to_writer(Box::new(Recorder::new(LevelFilter::Trace))).error_channel(flexi_logger::ErrorChannel::DevNull).build().ok()?;
    let gate = Arc::new(AtomicUsize::new(0));
    let done = Arc::new(AtomicUsize::new(0));
    let mut ths = Vec::new();
    for which in 0..2usize {
        let (gate, done) = (Arc::clone(&gate), Arc::clone(&done));
        let h = handle.clone();
        ths.push(std::thread::spawn(move || {
            let specs = [spec(0).build(), spec(5).build()];
            for r in 0..rounds {
                while gate.load(Ordering::SeqCst) <= r {
                    std::hint::spin_loop();
                }
                // alternate which thread submits which specification
                h.set_new_spec(specs[(which + r) % 2].clone());
                done.fetch_add(1, Ordering::SeqCst);
            }
            std::mem::forget(h);
        }));
    }
    let mut bad = None;
    for r in 0..rounds {
        gate.store(r + 1, Ordering::SeqCst);
        while done.load(Ordering::SeqCst) < 2 * (r + 1) {
            std::hint::spin_loop();
        }
        let trace_on = logger.enabled(&log::Metadata::builder().level(log::Level::Trace).target("x").build());
        let g = log::max_level();
        if bad.is_none() && trace_on && g < LevelFilter::Trace {
            bad = Some(format!("round {r}: after two concurrent set_new_spec calls (trace / error) the active specification enables trace records, but log::max_level() is {g}"));
        }
    }
    for t in ths {
        t.join().ok();
    }
    std::mem::forget(handle);
    drop(logger);
    bad
}
fn bounds(tier: &str) -> Value {
    json!({"harnesses": harnesses(tier).iter().map(|h| format!("{h:?}")).collect::<Vec<_>>(), "preemption_bound": "none (all interleavings)"})
}

const TARGETS: [&str; 3] = ["m", "n", "x"];

#[derive(Debug, Clone, PartialEq, Eq, Hash)]
struct Obs {
    grid: Vec<bool>,
    gate: LevelFilter,
    /// what the probing thread saw
    probed: Option<LevelFilter>,
    /// records for module q that reached the default channel
    q_written: usize,
    /// records for module p that reached the default channel
    p_written: usize,
}

fn sched_cfg_for(unmodelled: bool) -> SchedCfg {
    let mut c = sched_cfg();
    if unmodelled {
        c.nonblocking_locks = vec!["spec_lock"];
    }
    c
}

fn sched_cfg() -> SchedCfg {
    SchedCfg {
        only_points: Some(vec!["start", "set_max_level", "writer_max_level"]),
        // a lock the hooks do not know (a change that adds or inlines one) must not stall the run
        detect_real_blocking: true,
        ..SchedCfg::default()
    }
}

fn body(ops: Vec<Op>) -> Arc<dyn Fn(&Arc<Sched>) -> Obs + Send + Sync> {
    Arc::new(move |s: &Arc<Sched>| {
        let extra = Recorder::new(LevelFilter::Warn);
        let primary = Recorder::new(LevelFilter::Trace);
        let (logger, handle) = Logger::with(spec(INITIAL).build())
            .log_to_writer(Box::new(primary.clone()))
            .add_writer("W", Box::new(extra))
            .error_channel(flexi_logger::ErrorChannel::DevNull)
            .build()
            .expect("build");
        let logger: Arc<Box<dyn Log>> = Arc::new(logger);
        let mut hs = Vec::new();
        let probed: Arc<std::sync::Mutex<Option<LevelFilter>>> = Arc::new(std::sync::Mutex::new(None));
        let shared_mode = ops.iter().any(|o| matches!(o, Op::SharedSetA | Op::SharedSetD | Op::SharedParseB));
        // (in shared mode no clone of the handle is ever made)
        let handle = Arc::new(handle);
        for (i, op) in ops.iter().enumerate() {
            let shared = Arc::clone(&handle);
            let mut h = if shared_mode { None } else { Some((*handle).clone()) };
            let op = *op;
            let probed = Arc::clone(&probed);
            let lq = Arc::clone(&logger);
            hs.push(s.spawn(&format!("t{i}"), move || {
                match op {
                    Op::LogP => lq.log(&log::Record::builder().args(format_args!("from p")).level(log::Level::Error).target("p").module_path(Some("p")).build()),
                    Op::LogQ => lq.log(&log::Record::builder().args(format_args!("from q")).level(log::Level::Error).target("q").module_path(Some("q")).build()),
                    Op::SharedSetA => shared.set_new_spec(spec(0).build()),
                    Op::SharedSetD => shared.set_new_spec(spec(3).build()),
                    Op::SharedParseB => shared.parse_new_spec(&spec(1).text()).expect("well-formed"),
                    Op::WatcherE => h.as_mut().unwrap().verif_subscriber_set_new_spec(spec(5).build()).expect("subscriber"),
                    Op::Probe => *probed.lock().unwrap() = Some(log::max_level()),
                    Op::SetA => h.as_mut().unwrap().set_new_spec(spec(0).build()),
                    Op::ParseB => h.as_mut().unwrap().parse_new_spec(&spec(1).text()).expect("well-formed"),
                    Op::PushC => h.as_mut().unwrap().push_temp_spec(spec(2).build()),
                    Op::PushPopC => {
                        h.as_mut().unwrap().push_temp_spec(spec(2).build());
                        h.as_mut().unwrap().pop_temp_spec();
                    }
                    Op::SetD => h.as_mut().unwrap().set_new_spec(spec(3).build()),
                }
                drop(shared);
                // keep the clone alive: dropping a handle clone shuts the writers down (C04)
                std::mem::forget(h);
            }));
        }
        for h in hs {
            s.join(h);
        }
        let mut grid = Vec::new();
        for t in TARGETS {
            for l in LEVELS {
                grid.push(logger.enabled(&log::Metadata::builder().level(l).target(t).build()));
            }
        }
        let gate = log::max_level();
        std::mem::forget(handle);
        drop(logger);
        let probed = *probed.lock().unwrap();
        let recs = primary.take();
        let q_written = recs.iter().filter(|r| r.target == "q").count();
        let p_written = recs.iter().filter(|r| r.target == "p").count();
        Obs { grid, gate, probed, q_written, p_written }
    })
}

/// The specifications that can be the active one at the end: every interleaving of the
/// operations' atomic steps is enumerated. set/parse/watcher = one step (install x);
/// push_temp_spec = two steps (save what is active; install C) - it is not atomic in the code
/// either, another thread's change may come in between; pop_temp_spec = one step (install what
/// this handle saved; every handle clone has a stack of its own).
fn candidates(ops: &[Op]) -> Vec<usize> {
    #[derive(Clone, Copy)]
    enum Step {
        Set(usize),
        Save,
        Restore,
    }
    let progs: Vec<Vec<Step>> = ops
        .iter()
        .map(|op| match op {
            Op::SetA => vec![Step::Set(0)],
            Op::ParseB => vec![Step::Set(1)],
            Op::PushC => vec![Step::Save, Step::Set(2)],
            Op::PushPopC => vec![Step::Save, Step::Set(2), Step::Restore],
            Op::SetD => vec![Step::Set(3)],
            Op::WatcherE => vec![Step::Set(5)],
            Op::SharedSetA => vec![Step::Set(0)],
            Op::SharedSetD => vec![Step::Set(3)],
            Op::SharedParseB => vec![Step::Set(1)],
            Op::Probe | Op::LogQ | Op::LogP => vec![],
        })
        .collect();
    fn go(progs: &[Vec<Step>], pc: &mut Vec<usize>, saved: &mut Vec<usize>, cur: usize, out: &mut Vec<usize>) {
        let mut any = false;
        for t in 0..progs.len() {
            if pc[t] < progs[t].len() {
                any = true;
                let step = progs[t][pc[t]];
                pc[t] += 1;
                let old_saved = saved[t];
                let next = match step {
                    Step::Set(x) => x,
                    Step::Save => {
                        saved[t] = cur;
                        cur
                    }
                    Step::Restore => saved[t],
                };
                go(progs, pc, saved, next, out);
                saved[t] = old_saved;
                pc[t] -= 1;
            }
        }
        if !any {
            out.push(cur);
        }
    }
    let mut c = Vec::new();
    go(&progs, &mut vec![0; progs.len()], &mut vec![INITIAL; progs.len()], INITIAL, &mut c);
    c.sort_unstable();
    c.dedup();
    c
}

fn judge(ops: &[Op], o: &Obs) -> Result<usize, (String, String)> {
    // at no moment may the gate hide a record that the additional writer W (ceiling Warn, the
    // same under every specification) would accept
    if let Some(g) = o.probed {
        if g < LevelFilter::Warn {
            return Err((
                "gate-below-writer-ceiling".into(),
                format!("a thread that looked at log::max_level() while the change(s) were under way saw {g}: a warn record addressed to the additional writer W (ceiling Warn) would have been dropped by the log macros"),
            ));
        }
    }
    if ops.contains(&Op::LogP) && o.p_written != 1 {
        return Err((
            "dropped-though-enabled".into(),
            format!("an error record for module p, which the initial specification and every submitted one admit, was written {} times", o.p_written),
        ));
    }
    if o.q_written > 0 {
        return Err((
            "written-though-disabled".into(),
            "an error record for module q was written although every specification involved (the initial one and the submitted ones) switches q off".to_string(),
        ));
    }
    let mut cands = candidates(ops);
    if ops.iter().all(|o| matches!(o, Op::Probe | Op::LogQ | Op::LogP)) || cands.is_empty() {
        cands.push(INITIAL);
    }
    let hit = cands.iter().copied().find(|c| spec(*c).grid(&TARGETS) == o.grid);
    let Some(c) = hit else {
        return Err((
            "mixed-spec".into(),
            format!("final enabled-grid {:?} equals none of the submitted specifications {:?}", o.grid, cands.iter().map(|c| spec(*c).text()).collect::<Vec<_>>()),
        ));
    };
    let s = spec(c);
    // several candidates may share a grid; the gate must admit what the observed grid enables
    for (ti, t) in TARGETS.iter().enumerate() {
        for (li, l) in LEVELS.iter().enumerate() {
            if o.grid[ti * LEVELS.len() + li] && *l > o.gate {
                return Err((
                    "gate-below-spec".into(),
                    format!("final spec `{}` enables ({l},{t}) but log::max_level() = {}", s.text(), o.gate),
                ));
            }
        }
    }
    Ok(c)
}

fn run_unit(tier: &str, unit: usize, out: &mut Out) {
    let hs = harnesses(tier);
    if unit >= hs.len() + unmodelled_pairs().len() {
        let rounds = stress_rounds(tier);
        out.count("stress_rounds(sampling)", rounds as u64);
        out.evaluations += 1;
        let case = json!({"tier": tier, "unit": unit, "kind": "stress"});
        match crate::run_isolated(std::time::Duration::from_secs(900), move || stress_pairs(rounds)) {
            crate::Ran::Done(None) => out.outcome("stress: consistent after every round"),
            crate::Ran::Done(Some(d)) => out.violation(Violation::new("gate-below-spec", "[SetA, SetE]/free-running", d, case)),
            crate::Ran::Panicked(m) => out.violation(Violation::new("panic", "free-running", m, case)),
            crate::Ran::Hung => out.violation(Violation::new("deadlock", "free-running", "the free-running rounds did not finish within 900 s".to_string(), case)),
        }
        return;
    }
    let unmodelled = unit >= hs.len();
    let ops = if unmodelled { unmodelled_pairs()[unit - hs.len()].clone() } else { hs[unit].clone() };
    let cfg = sched_cfg_for(unmodelled);
    let b = body(ops.clone());
    let mut first_bad: Option<Violation> = None;
    let ops2 = ops.clone();
    let mut outcomes: std::collections::BTreeMap<String, u64> = std::collections::BTreeMap::new();
    let mut machinery: Option<String> = None;
    let mut nontrivial = 0u64;
    let stats = sched::explore(&cfg, None, 3_000_000, &|| None, b.clone(), &mut |choices, ex| {
        if ex.stalled {
            machinery = Some(format!("execution stalled; schedule {choices:?}"));
            return false;
        }
        if let Some(Abort::Diverged(m)) = &ex.abort {
            machinery = Some(format!("replay diverged: {m}; schedule {choices:?}"));
            return false;
        }
        if ex.points.iter().any(|p| p.running_enabled && p.chosen != 0) {
            nontrivial += 1;
        }
        let case = json!({"tier": tier, "unit": unit, "ops": format!("{ops2:?}"), "schedule": choices});
        match (&ex.abort, &ex.obs) {
            (Some(Abort::Deadlock(d)), _) => {
                *outcomes.entry("deadlock".into()).or_insert(0) += 1;
                if first_bad.is_none() {
                    first_bad = Some(Violation::new("deadlock", format!("{ops2:?}"), format!("ops={ops2:?} schedule={choices:?}: {d}"), case));
                }
            }
            (_, Some(o)) => match judge(&ops2, o) {
                Ok(c) => {
                    *outcomes.entry(format!("final=`{}` gate={}", spec(c).text(), o.gate)).or_insert(0) += 1;
                }
                Err((clause, detail)) => {
                    *outcomes.entry(format!("BAD {clause} gate={}", o.gate)).or_insert(0) += 1;
                    if first_bad.as_ref().map_or(true, |v| v.case["schedule"].as_array().map_or(0, Vec::len) > choices.len()) {
                        let trace: Vec<String> = ex.points.iter().map(|p| p.ops[p.chosen].clone()).collect();
                        first_bad = Some(Violation::new(&clause, format!("{ops2:?}"), format!("ops={ops2:?} schedule={choices:?}\n  {detail}\n  steps: {trace:?}"), case));
                    }
                }
            },
            _ => {}
        }
        true
    });
    out.evaluations += stats.schedules;
    out.traces_validated += stats.schedules;
    out.transitions += stats.choice_points;
    out.count("schedules", stats.schedules);
    out.max("max_choice_points_per_schedule", stats.max_points as u64);
    for (k, n) in outcomes {
        *out.outcomes.entry(format!("{ops:?}{}: {k}", if unmodelled { " (spec lock un-modelled)" } else { "" })).or_insert(0) += n;
    }
    // states: distinct (harness, depth, enabled-set) is not tracked; count choice points as states
    for i in 0..stats.choice_points.min(2_000_000) {
        out.state(&(unit, i));
    }
    for i in 0..nontrivial {
        out.nontrivial(&(unit, i));
    }
    if stats.capped {
        out.capped = true;
    }
    out.sample(json!({"harness": format!("{ops:?}"), "schedules": stats.schedules, "max_choice_points": stats.max_points}));
    if let Some(m) = machinery {
        out.violation(Violation::new("machinery", "scheduler", m, json!({"tier": tier, "unit": unit})));
        out.capped = true;
        return;
    }
    if let Some(v) = first_bad {
        // determinism: replay the recorded schedule twice, the observation must be identical
        let sch: Vec<usize> = v.case["schedule"].as_array().into_iter().flatten().filter_map(|x| x.as_u64().map(|n| n as usize)).collect();
        let e1 = sched::run_once(&cfg, &sch, None, b.clone());
        let e2 = sched::run_once(&cfg, &sch, None, b.clone());
        if e1.obs == e2.obs && e1.obs.as_ref().map_or(e1.abort.is_some(), |o| judge(&ops, o).is_err()) {
            out.violation(v);
        } else {
            out.violation(Violation::new("nondeterministic", "replay-diverged", v.detail.clone(), v.case.clone()));
        }
    }
}

fn replay(case: &Value) -> Vec<Violation> {
    if case["kind"].as_str() == Some("stress") {
        println!("replay C12: free-running rounds (sampling: a pass proves nothing)");
        let mut out = Out::default();
        run_unit("thorough", usize::MAX, &mut out);
        return out.violations;
    }
    let tier = case["tier"].as_str().unwrap_or("quick");
    let unit = case["unit"].as_u64().unwrap_or(0) as usize;
    let hs = harnesses(tier);
    let up = unmodelled_pairs();
    let unmodelled = unit >= hs.len();
    let Some(ops) = (if unmodelled { up.get(unit - hs.len()) } else { hs.get(unit) }) else { return vec![] };
    let sch: Vec<usize> = case["schedule"].as_array().into_iter().flatten().filter_map(|x| x.as_u64().map(|n| n as usize)).collect();
    let mut cfg = sched_cfg_for(unmodelled);
    cfg.keep_log = true;
    let ex = sched::run_once(&cfg, &sch, None, body(ops.clone()));
    println!("replay C12: ops={ops:?} schedule={sch:?}");
    for l in &ex.log {
        println!("  {l}");
    }
    println!("  observation: {:?} abort={:?}", ex.obs, ex.abort);
    match (&ex.abort, &ex.obs) {
        (Some(Abort::Deadlock(d)), _) => vec![Violation::new("deadlock", format!("{ops:?}"), d.clone(), case.clone())],
        (_, Some(o)) => match judge(ops, o) {
            Ok(_) => vec![],
            Err((c, d)) => vec![Violation::new(&c, format!("{ops:?}"), d, case.clone())],
        },
        _ => vec![],
    }
}
