//! C03 — concurrent logging keeps every line intact, exactly once, in per-thread order.
//!
//! Controlled-scheduler exploration (E2): 2-3 harness threads log 1-2 records each through a
//! shared real logger while the logger's own threads (async writer, background cleanup, flusher)
//! are under the same scheduler; all schedules up to a preemption bound are executed. An
//! auxiliary free-running stress pass (sampling, does not decide anything) looks for
//! unsynchronised accesses that a cooperative scheduler cannot see.
use super::{all_workers, default_cap, Prop};
use crate::capture::FdCapture;
use crate::env::Env;
use crate::family;
use crate::lg::{self, Cfg, CleanK, CritK, ModeK, NamingK};
use crate::report::{Meta, Out, Violation};
use crate::sched::{self, Abort, Sched, SchedCfg};
use crate::scratch::Scratch;
use flexi_logger::{Duplicate, ErrorChannel, LogSpecification, Logger};
use log::Log;
use serde_json::{json, Value};
use std::collections::BTreeMap;
use std::sync::Arc;

pub fn prop() -> Prop {
    Prop {
        id: "C03",
        meta,
        units,
        run_unit,
        replay,
        bounds,
        wall_cap_s: default_cap,
        max_workers: all_workers,
    }
}

fn meta() -> Meta {
    Meta {
        id: "C03",
        level: "model_checking",
        rule: "for every harness (write mode x output x naming x threads x records; see bounds) every schedule with <= 2 (quick) / 3 (thorough) preemptions is executed on the real code under the token-passing scheduler, scheduling points = state mutex, channel send/receive, buffer pool, stream locks, thread start/exit/join, timer ticks and the file-system calls of rotation and cleanup; states = choice points visited, transitions = scheduling decisions; non-trivial = schedule with at least one preemption; the final output must split into exactly the expected multiset of intact lines with per-thread order; plus harnesses with record sizes on both sides of the buffer / message capacity, and two harnesses with the state mutex left un-modelled (real blocking detected from the kernel thread state); plus harnesses with a thread calling reopen_output() while two others log through rotations; harnesses whose first thread logs recursively; harnesses with a thread calling reset_flw onto the same file (scheduling point after every release of the state lock)",
        assumptions: vec![
            "sequential consistency at hook granularity: flexi_logger forbids unsafe code, so every shared access of the unchanged code goes through a hooked primitive".into(),
            "an access that a code change adds without synchronisation between two hooks is invisible to the scheduler; the auxiliary free-running stress pass (8 threads x 300 records per output kind; sampling, reported separately) is there for that and decides nothing on its own".into(),
        ],
    }
}

#[derive(Clone, Copy, Debug, PartialEq, Eq)]
enum OutK {
    File(Option<NamingK>),
    Stdout,
    Stderr,
    FileDupStderr,
}

#[derive(Clone, Debug)]
struct Harness {
    name: &'static str,
    mode: ModeK,
    out: OutK,
    clean: CleanK,
    bg_cleanup: bool,
    threads: usize,
    records: usize,
    /// payload lengths per record index (cycled)
    lens: &'static [usize],
    tick_budget: usize,
    thorough_only: bool,
    /// the state mutex is NOT modelled from its hooks (they are plain scheduling points); threads
    /// really block on it and the scheduler detects that from the kernel's thread state. Slower,
    /// but a change that splits or shortens the critical section is not masked by the model.
    unmodelled_state_lock: bool,
    /// one more controlled thread calls reopen_output() (the file is in place) while the others log
    reopen_thread: bool,
    /// the first thread's records log another record (tag 9) while they are being formatted
    recursive: bool,
    /// one more controlled thread calls reset_flw() onto the same file (append) while the others
    /// log: what was logged before must not end up behind what is logged afterwards
    reset_thread: bool,
}

fn harnesses() -> Vec<Harness> {
    let h = |name, mode, out, clean, bg_cleanup, threads, records, lens: &'static [usize], tick_budget, thorough_only| Harness {
        name,
        mode,
        out,
        clean,
        bg_cleanup,
        threads,
        records,
        lens,
        tick_budget,
        thorough_only,
        unmodelled_state_lock: false,
        reopen_thread: false,
        recursive: false,
        reset_thread: false,
    };
    let num = OutK::File(Some(NamingK::Numbers));
    let mut v = vec![
        h("direct/file-numbers/2x2", ModeK::Direct, num, CleanK::Never, false, 2, 2, &[9], 0, false),
        h("direct/file-tsdirect/3x1", ModeK::Direct, OutK::File(Some(NamingK::TimestampsDirect)), CleanK::Never, false, 3, 1, &[9], 0, false),
        h("direct/file-timestamps/2x2", ModeK::Direct, OutK::File(Some(NamingK::Timestamps)), CleanK::Never, false, 2, 2, &[9], 0, false),
        h("buffered8/file-numbers/2x2", ModeK::BufDont(8), num, CleanK::Never, false, 2, 2, &[9, 6], 0, false),
        h("buffered64/file-numbers/2x2", ModeK::BufDont(64), num, CleanK::Never, false, 2, 2, &[9], 0, false),
        h("async-capa4/file-numbers/2x2", ModeK::Async(1, 4, 0), num, CleanK::Never, false, 2, 2, &[6, 9], 0, false),
        h("async-capa64/file-timestamps/2x2", ModeK::Async(1, 64, 0), OutK::File(Some(NamingK::Timestamps)), CleanK::Never, false, 2, 2, &[9], 0, false),
        h("async-capa4/file-norotation/3x1", ModeK::Async(1, 4, 0), OutK::File(None), CleanK::Never, false, 3, 1, &[6, 9, 7], 0, true),
        h("async-capa4/file-norotation/2x1", ModeK::Async(1, 4, 0), OutK::File(None), CleanK::Never, false, 2, 1, &[6, 9], 0, false),
        h("direct/stdout/2x2", ModeK::Direct, OutK::Stdout, CleanK::Never, false, 2, 2, &[9], 0, false),
        h("buffered8/stdout/2x2", ModeK::BufDont(8), OutK::Stdout, CleanK::Never, false, 2, 2, &[9, 6], 0, false),
        h("async-capa4/stderr/2x2", ModeK::Async(1, 4, 0), OutK::Stderr, CleanK::Never, false, 2, 2, &[6, 9], 0, false),
        h("direct/file+dup-stderr/2x2", ModeK::Direct, OutK::FileDupStderr, CleanK::Never, false, 2, 2, &[9], 0, false),
        h("direct/file-numbers+bg-cleanup/2x2", ModeK::Direct, num, CleanK::Log(1), true, 2, 2, &[9], 0, false),
        h("direct/file-numbers+bg-compress/2x2", ModeK::Direct, num, CleanK::Gz(1), true, 2, 2, &[9], 0, false),
        h("buffered+flusher/file-numbers/2x1", ModeK::BufFlush(8, 1), num, CleanK::Never, false, 2, 1, &[9], 1, false),
        h("direct/file-numbers/3x2", ModeK::Direct, num, CleanK::Never, false, 3, 2, &[9], 0, true),
        h("async-capa4/file-numbers/2x3", ModeK::Async(1, 4, 0), num, CleanK::Never, false, 2, 3, &[6, 9, 7], 0, true),
        h("async-capa4/file-numbers+cleanup-in-writer-thread/2x2", ModeK::Async(1, 4, 0), num, CleanK::Log(1), false, 2, 2, &[9], 0, true),
        // record sizes on both sides of the capacity thresholds (buffer capacity, async message capacity)
        h("async-capa24/file-norotation/2x2/mixed-sizes", ModeK::Async(1, 24, 0), OutK::File(None), CleanK::Never, false, 2, 2, &[5, 40], 0, false),
        h("async-capa24/file-numbers/2x3/mixed-sizes", ModeK::Async(2, 24, 0), num, CleanK::Never, false, 2, 3, &[5, 40, 6], 0, true),
        h("buffered24/stdout/2x2/mixed-sizes", ModeK::BufDont(24), OutK::Stdout, CleanK::Never, false, 2, 2, &[5, 40], 0, false),
        h("buffered24/stderr/2x2/mixed-sizes", ModeK::BufDont(24), OutK::Stderr, CleanK::Never, false, 2, 2, &[40, 5], 0, false),
        h("buffered24/file-numbers/2x2/mixed-sizes", ModeK::BufDont(24), num, CleanK::Never, false, 2, 2, &[5, 40], 0, false),
        h("async-capa24/stdout/2x2/mixed-sizes", ModeK::Async(1, 24, 0), OutK::Stdout, CleanK::Never, false, 2, 2, &[5, 40], 0, true),
    ];
    for (name, mode, thorough_only) in [
        ("direct/file-numbers/2x2/unmodelled-state-lock", ModeK::Direct, false),
        ("buffered8/file-numbers/2x2/unmodelled-state-lock", ModeK::BufDont(8), false),
    ] {
        let mut x = h(name, mode, num, CleanK::Never, false, 2, 2, &[9, 6], 0, thorough_only);
        x.unmodelled_state_lock = true;
        v.push(x);
    }
    for (name, mode, thorough_only) in [
        ("direct/file-numbers/2x2/recursive/unmodelled-state-lock", ModeK::Direct, false),
        ("buffered8/file-numbers/2x2/recursive/unmodelled-state-lock", ModeK::BufDont(8), true),
    ] {
        let mut x = h(name, mode, num, CleanK::Never, false, 2, 2, &[9, 6], 0, thorough_only);
        x.unmodelled_state_lock = true;
        x.recursive = true;
        v.push(x);
    }
    {
        let mut x = h("direct/file-numbers/2x2/recursive", ModeK::Direct, num, CleanK::Never, false, 2, 2, &[9, 6], 0, false);
        x.recursive = true;
        v.push(x);
    }
    // recursive logging where the writer locks per write call (buffered std stream, duplicates)
    for (name, mode, out, thorough_only) in [
        ("buffered8/stdout/2x2/recursive", ModeK::BufDont(8), OutK::Stdout, false),
        ("buffered64/stderr/2x2/recursive", ModeK::BufDont(64), OutK::Stderr, false),
        // (not with duplicates: a record is formatted once per output, so a Display
        // implementation that logs does so once per output)
    ] {
        let mut x = h(name, mode, out, CleanK::Never, false, 2, 2, &[9, 6], 0, thorough_only);
        x.recursive = true;
        v.push(x);
    }
    for (name, mode, out, thorough_only) in [
        ("buffered64/file-norotation/2x2+reset-thread", ModeK::BufDont(64), OutK::File(None), false),
        ("buffered8/file-norotation/2x2+reset-thread", ModeK::BufDont(8), OutK::File(None), false),
        ("buffered64/file-numbers/2x2+reset-thread", ModeK::BufDont(64), num, true),
    ] {
        // (a small record first: it stays in the buffer, the larger one after it does not)
        let mut x = h(name, mode, out, CleanK::Never, false, 2, 2, &[6, 9], 0, thorough_only);
        x.reset_thread = true;
        v.push(x);
    }
    for (name, mode, thorough_only) in [
        ("direct/file-numbers/2x2+reopen-thread", ModeK::Direct, false),
        ("buffered8/file-numbers/2x2+reopen-thread", ModeK::BufDont(8), false),
        ("async-capa64/file-numbers/2x2+reopen-thread", ModeK::Async(1, 64, 0), true),
    ] {
        let mut x = h(name, mode, num, CleanK::Never, false, 2, 2, &[9, 6], 0, thorough_only);
        x.reopen_thread = true;
        v.push(x);
    }
    v
}

fn active(tier: &str) -> Vec<Harness> {
    harnesses().into_iter().filter(|h| tier != "quick" || !h.thorough_only).collect()
}
fn units(tier: &str) -> usize {
    active(tier).len() + 1
}
fn bounds(tier: &str) -> Value {
    json!({"harnesses": active(tier).iter().map(|h| h.name).collect::<Vec<_>>(), "preemption_bound": if tier == "quick" { 2 } else { 3 }, "size_limit": 12, "stress_pass": "8 threads x 300 records x 5 cases (sampling; auxiliary)"})
}

const LIMIT: u64 = 12;

fn sched_cfg(h: &Harness) -> SchedCfg {
    SchedCfg {
        ignore: vec!["flw_pool_pop", "set_max_level", "symlink_remove", "symlink_create", "flush", "std_pool_pop"],
        tick_budget: h.tick_budget,
        // always on: a lock the hooks do not know (a change that adds one) must not stall the run
        detect_real_blocking: true,
        nonblocking_locks: if h.unmodelled_state_lock { vec!["flw_state"] } else { vec![] },
        points_after_release: if h.reset_thread { vec!["flw_state"] } else { vec![] },
        ..SchedCfg::default()
    }
}

#[derive(Debug, Clone, PartialEq)]
struct Obs {
    result: Result<(), (String, String)>,
    shape: Vec<usize>,
    /// order in which the lines appear in the output (thread.seq), the schedule's visible effect
    order: String,
}

fn expected_lines(h: &Harness) -> Vec<Vec<String>> {
    (0..h.threads)
        .map(|t| {
            (0..h.records)
                .flat_map(|r| {
                    let len = h.lens[(t * h.records + r) % h.lens.len()];
                    let outer = lg::payload(t + 1, r, len);
                    // the nested record is complete before the record that produces it
                    if h.recursive && t == 0 {
                        vec![lg::payload(9, r, len), outer]
                    } else {
                        vec![outer]
                    }
                })
                .collect()
        })
        .collect()
}

/// Logs the lines of one thread (see `expected_lines`).
fn log_lines(h: &Harness, t: usize, l: &dyn Log, lines: &[String]) {
    if h.recursive && t == 0 {
        for pair in lines.chunks(2) {
            lg::log_nested(l, &pair[0], &pair[1]);
        }
    } else {
        for m in lines {
            lg::log_info(l, m);
        }
    }
}

/// The output must split into exactly the expected lines, each contiguous, per-thread order.
fn judge_output(h: &Harness, what: &str, bytes: &[u8]) -> Result<(), (String, String)> {
    let exp = expected_lines(h);
    let (lines, rest) = family::split_lines(bytes, "\n");
    let show = || String::from_utf8_lossy(bytes).to_string();
    if !rest.is_empty() {
        return Err(("line-torn".into(), format!("{what}: unterminated data at the end: {:?}; output {:?}", String::from_utf8_lossy(&rest), show())));
    }
    let mut next = vec![0usize; h.threads];
    for l in &lines {
        let owner = exp.iter().position(|t| t.contains(l));
        let Some(t) = owner else {
            return Err(("line-torn".into(), format!("{what}: line {l:?} is none of the logged lines; output {:?}", show())));
        };
        let idx = exp[t].iter().position(|x| x == l).unwrap();
        if idx < next[t] {
            return Err(("line-duplicated".into(), format!("{what}: line {l:?} appears again or before an earlier line of its thread; output {:?}", show())));
        }
        if idx > next[t] {
            return Err(("thread-order".into(), format!("{what}: line {l:?} of thread {t} appears although its predecessor {:?} has not; output {:?}", exp[t][next[t]], show())));
        }
        next[t] = idx + 1;
    }
    for (t, n) in next.iter().enumerate() {
        if *n != exp[t].len() {
            return Err(("line-missing".into(), format!("{what}: line {:?} of thread {t} is missing; output {:?}", exp[t][*n], show())));
        }
    }
    Ok(())
}

struct World {
    env: Env,
    _sc: Scratch,
    caps: Vec<(FdCapture, &'static str)>,
    cfg: Cfg,
}

fn build(h: &Harness, in_sched: bool) -> Result<(World, Box<dyn Log>, flexi_logger::LoggerHandle), String> {
    let env = if in_sched { Env::in_current("c03") } else { Env::new("c03") };
    if !in_sched {
        env.ctx.ticks.lock().unwrap().park = false;
        env.enter();
    }
    let sc = Scratch::new("c03c");
    let mut cfg = match h.out {
        OutK::File(Some(n)) => Cfg::rot(CritK::Size(LIMIT), n, h.clean),
        OutK::FileDupStderr => Cfg::rot(CritK::Size(LIMIT), NamingK::Numbers, h.clean),
        _ => Cfg::norot(),
    };
    cfg.mode = h.mode;
    cfg.bg_cleanup = h.bg_cleanup;
    let mut caps = Vec::new();
    let lb = match h.out {
        OutK::File(_) => cfg.logger(&env.dir, &env.err),
        OutK::FileDupStderr => {
            caps.extend(FdCapture::start(2, sc.path().join("e.txt")).map(|c| (c, "stderr (duplicates)")));
            cfg.logger(&env.dir, &env.err).duplicate_to_stderr(Duplicate::All)
        }
        OutK::Stdout => {
            caps.extend(FdCapture::start(1, sc.path().join("o.txt")).map(|c| (c, "stdout")));
            Logger::with(LogSpecification::trace()).log_to_stdout().format(lg::payload_format).write_mode(h.mode.write_mode()).error_channel(ErrorChannel::File(env.err.clone()))
        }
        OutK::Stderr => {
            caps.extend(FdCapture::start(2, sc.path().join("e.txt")).map(|c| (c, "stderr")));
            Logger::with(LogSpecification::trace()).log_to_stderr().format(lg::payload_format).write_mode(h.mode.write_mode()).error_channel(ErrorChannel::File(env.err.clone()))
        }
    };
    match lb.build() {
        Ok((l, hd)) => Ok((
            World {
                env,
                _sc: sc,
                caps,
                cfg,
            },
            l,
            hd,
        )),
        Err(e) => {
            for (c, _) in caps {
                c.finish();
            }
            Err(e.to_string())
        }
    }
}

fn finish_and_judge(h: &Harness, w: World) -> Obs {
    let mut result = Ok(());
    let mut shape = Vec::new();
    let mut order = String::new();
    let tags = |bytes: &[u8]| -> String { family::split_lines(bytes, "\n").0.iter().map(|l| l.split(':').next().unwrap_or("").to_string()).collect::<Vec<_>>().join(",") };
    let World { env, _sc, caps, cfg } = w;
    for (c, what) in caps {
        let bytes = c.finish();
        if result.is_ok() {
            result = judge_output(h, what, &bytes);
        }
        order.push_str(&tags(&bytes));
        shape.push(bytes.len());
    }
    if matches!(h.out, OutK::File(_) | OutK::FileDupStderr) {
        let scan = family::scan(&env.dir, &cfg.parts, None, cfg.naming(), &[]);
        if !scan.foreign.is_empty() || !scan.other.is_empty() {
            result = Err(("line-torn".into(), format!("files outside the family: {:?} {:?}", scan.foreign, scan.other)));
        }
        match scan.stream(&env.dir) {
            Ok(bytes) => {
                order.push('|');
                order.push_str(&tags(&bytes));
                shape.extend(scan.members.iter().map(|m| std::fs::metadata(env.dir.join(&m.name)).map_or(0, |x| x.len() as usize)));
                if result.is_ok() && h.clean == CleanK::Never {
                    result = judge_output(h, "files in age order", &bytes);
                } else if result.is_ok() {
                    // with a cleanup limit the oldest files are gone: the rest must still be
                    // intact lines in per-thread order without duplicates
                    let (lines, rest) = family::split_lines(&bytes, "\n");
                    let exp = expected_lines(h);
                    let known = lines.iter().all(|l| exp.iter().any(|t| t.contains(l)));
                    let mut sorted = lines.clone();
                    sorted.sort();
                    sorted.dedup();
                    if !rest.is_empty() || !known || sorted.len() != lines.len() {
                        result = Err(("line-torn".into(), format!("files in age order hold {:?}", String::from_utf8_lossy(&bytes))));
                    }
                }
            }
            Err(e) => result = Err(("line-torn".into(), e)),
        }
    }
    let errs = env.errlines();
    if result.is_ok() && !errs.is_empty() {
        result = Err(("error-channel".into(), format!("{errs:?}")));
    }
    env.leave();
    Obs { result, shape, order }
}

fn body(h: Harness) -> Arc<dyn Fn(&Arc<Sched>) -> Obs + Send + Sync> {
    Arc::new(move |s: &Arc<Sched>| {
        let (w, logger, handle) = match build(&h, true) {
            Ok(x) => x,
            Err(e) => {
                return Obs {
                    result: Err(("build-error".into(), e)),
                    shape: vec![],
                    order: String::new(),
                }
            }
        };
        let logger: Arc<Box<dyn Log>> = Arc::new(logger);
        let exp = expected_lines(&h);
        let mut hs = Vec::new();
        for (t, lines) in exp.into_iter().enumerate() {
            let l = Arc::clone(&logger);
            let h3 = h.clone();
            hs.push(s.spawn(&format!("log{t}"), move || log_lines(&h3, t, &**l, &lines)));
        }
        if h.reopen_thread {
            let h2 = handle.clone();
            hs.push(s.spawn("reopen", move || {
                h2.reopen_output().ok();
                // (the clone is dropped here: leaking it would keep the log file open for ever)
                drop(h2);
            }));
        }
        if h.reset_thread {
            let h2 = handle.clone();
            let mut cfg = w.cfg.clone();
            cfg.append = true;
            let dir = w.env.dir.clone();
            hs.push(s.spawn("reset", move || {
                h2.reset_flw(&cfg.flw_builder(&dir)).ok();
                drop(h2);
            }));
        }
        for jh in hs {
            s.join(jh);
        }
        handle.shutdown();
        drop(handle);
        drop(logger);
        finish_and_judge(&h, w)
    })
}

fn run_sched_unit(tier: &str, idx: usize, out: &mut Out) {
    let hs = active(tier);
    let h = hs[idx].clone();
    let bound = if tier == "quick" { 2 } else { 3 };
    let cfg = sched_cfg(&h);
    let b = body(h.clone());
    let mut first_bad: Option<Violation> = None;
    let mut machinery: Option<String> = None;
    let mut nontrivial = 0u64;
    let mut outcomes: BTreeMap<String, u64> = BTreeMap::new();
    let clock = || Some(crate::hooks::VClock::new(crate::hooks::base_instant()));
    let outk = format!("{:?}", h.out);
    let stats = sched::explore(&cfg, Some(bound), 300_000, &clock, b.clone(), &mut |choices, ex| {
        if ex.stalled {
            machinery = Some(format!("execution stalled; schedule {choices:?}; log {:?}", ex.log));
            return false;
        }
        if let Some(Abort::Diverged(m)) = &ex.abort {
            machinery = Some(format!("replay diverged: {m}; schedule {choices:?}"));
            return false;
        }
        if ex.points.iter().any(|p| p.running_enabled && p.chosen != 0) {
            nontrivial += 1;
        }
        let case = json!({"kind": "sched", "harness": h.name, "schedule": choices});
        let bad: Option<(String, String)> = match (&ex.abort, &ex.obs) {
            (Some(Abort::Deadlock(d)), _) => Some(("deadlock".into(), d.clone())),
            (_, Some(o)) => match &o.result {
                Ok(()) => {
                    *outcomes.entry(format!("{:?} {}", o.shape, o.order)).or_insert(0) += 1;
                    None
                }
                Err((c, d)) => Some((c.clone(), d.clone())),
            },
            _ => None,
        };
        if let Some((c, d)) = bad {
            *outcomes.entry(format!("BAD {c}")).or_insert(0) += 1;
            if first_bad.as_ref().map_or(true, |v| v.case["schedule"].as_array().map_or(0, Vec::len) > choices.len()) {
                let steps: Vec<String> = ex.points.iter().map(|p| p.ops[p.chosen].clone()).collect();
                // the two hook sites adjacent to the last preemption
                let lastp = ex.points.iter().rposition(|p| p.running_enabled && p.chosen != 0);
                let sites = lastp.map_or("-".to_string(), |i| {
                    let site = |s: &str| s.split(&['(', '"'][..]).filter(|x| !x.is_empty()).nth(1).unwrap_or("").to_string();
                    format!("{}|{}", site(&ex.points[i].ops[0]), site(&ex.points[i].ops[ex.points[i].chosen]))
                });
                first_bad = Some(Violation::new(&c, format!("{}/{outk}/{sites}", super::c08::mode_class(h.mode)), format!("harness {}\n  schedule={choices:?}\n  {d}\n  steps: {steps:?}", h.name), case));
            }
        }
        true
    });
    out.evaluations += stats.schedules;
    out.traces_validated += stats.schedules;
    out.transitions += stats.choice_points;
    out.count("schedules", stats.schedules);
    out.max("max_choice_points_per_schedule", stats.max_points as u64);
    out.max("max_preemption_bound_completed", bound as u64);
    let distinct = outcomes.len();
    for (k, n) in outcomes {
        *out.outcomes.entry(format!("{}: {k}", h.name)).or_insert(0) += n;
    }
    out.notes.insert(format!("distinct_outcomes[{}]", h.name), json!(distinct));
    for i in 0..stats.choice_points.min(2_000_000) {
        out.state(&("s", idx, i));
    }
    for i in 0..nontrivial {
        out.nontrivial(&("s", idx, i));
    }
    if stats.capped {
        out.capped = true;
    }
    if idx < 2 {
        out.sample(json!({"harness": h.name, "threads": h.threads, "records_per_thread": h.records, "schedules": stats.schedules, "preemption_bound": bound, "max_choice_points": stats.max_points}));
    }
    if let Some(m) = machinery {
        out.violation(Violation::new("machinery", "scheduler", format!("harness {}: {m}", h.name), json!({"kind": "sched", "harness": h.name})));
        out.capped = true;
        return;
    }
    if let Some(v) = first_bad {
        let sch: Vec<usize> = v.case["schedule"].as_array().into_iter().flatten().filter_map(|x| x.as_u64().map(|n| n as usize)).collect();
        let e1 = sched::run_once(&cfg, &sch, clock(), b.clone());
        let e2 = sched::run_once(&cfg, &sch, clock(), b.clone());
        let k = |e: &sched::Execution<Obs>| (e.abort.is_some(), e.obs.as_ref().map(|o| o.result.as_ref().err().map(|x| x.0.clone())));
        if k(&e1) == k(&e2) && (e1.abort.is_some() || e1.obs.as_ref().is_some_and(|o| o.result.is_err())) {
            out.violation(v);
        } else {
            out.violation(Violation::new("nondeterministic", "replay-diverged", v.detail.clone(), v.case.clone()));
        }
    }
}

/// Auxiliary: free-running threads (real races), sampling.
fn stress(out: &mut Out) {
    let cases = [
        ("stress/direct/file", ModeK::Direct, OutK::File(Some(NamingK::Numbers))),
        ("stress/async/file", ModeK::Async(2, 16, 0), OutK::File(Some(NamingK::Numbers))),
        ("stress/direct/file+dup-stderr", ModeK::Direct, OutK::FileDupStderr),
        ("stress/buffered/stdout", ModeK::BufDont(64), OutK::Stdout),
        ("stress/direct/file/recursive", ModeK::Direct, OutK::File(Some(NamingK::Numbers))),
    ];
    for (name, mode, outk) in cases {
        let h = Harness {
            name,
            mode,
            out: outk,
            clean: CleanK::Never,
            bg_cleanup: false,
            threads: 8,
            records: 300,
            lens: &[9, 30, 7],
            tick_budget: 0,
            thorough_only: false,
            unmodelled_state_lock: false,
            reopen_thread: false,
            recursive: name.contains("recursive"),
            reset_thread: false,
        };
        let h2 = h.clone();
        let r = crate::run_isolated(std::time::Duration::from_secs(60), move || {
            let (w, logger, handle) = build(&h2, false).map_err(|e| ("build-error".to_string(), e))?;
            let logger: Arc<Box<dyn Log>> = Arc::new(logger);
            let barrier = Arc::new(std::sync::Barrier::new(h2.threads));
            let mut ths = Vec::new();
            for (t, lines) in expected_lines(&h2).into_iter().enumerate() {
                let (l, b) = (Arc::clone(&logger), Arc::clone(&barrier));
                let h3 = h2.clone();
                ths.push(std::thread::Builder::new().name(format!("fxv-stress{t}")).spawn(move || {
                    b.wait();
                    log_lines(&h3, t, &**l, &lines);
                }).expect("spawn"));
            }
            for t in ths {
                t.join().ok();
            }
            handle.shutdown();
            drop(handle);
            drop(logger);
            finish_and_judge(&h2, w).result
        });
        out.count("stress_runs(sampling)", 1);
        let case = json!({"kind": "stress", "name": name});
        match r {
            crate::Ran::Done(Ok(())) => {}
            crate::Ran::Done(Err((c, d))) => out.violation(Violation::new(&c, format!("{}/{outk:?}/free-running", super::c08::mode_class(mode)), format!("{name} (free-running threads): {}", d.chars().take(600).collect::<String>()), case)),
            crate::Ran::Panicked(m) => out.violation(Violation::new("panic", format!("{name}"), m, case)),
            crate::Ran::Hung => out.violation(Violation::new("deadlock", format!("{name}/free-running"), "did not finish within 60 s".to_string(), case)),
        }
    }
}

fn run_unit(tier: &str, unit: usize, out: &mut Out) {
    if unit < active(tier).len() {
        run_sched_unit(tier, unit, out);
    } else {
        stress(out);
    }
}

fn replay(case: &Value) -> Vec<Violation> {
    if case["kind"].as_str() == Some("stress") {
        let mut out = Out::default();
        stress(&mut out);
        return out.violations;
    }
    let name = case["harness"].as_str().unwrap_or("");
    let Some(h) = harnesses().into_iter().find(|h| h.name == name) else { return vec![] };
    let sch: Vec<usize> = case["schedule"].as_array().into_iter().flatten().filter_map(|x| x.as_u64().map(|n| n as usize)).collect();
    let mut cfg = sched_cfg(&h);
    cfg.keep_log = true;
    let ex = sched::run_once(&cfg, &sch, Some(crate::hooks::VClock::new(crate::hooks::base_instant())), body(h.clone()));
    println!("replay C03 (harness {}): schedule={sch:?}", h.name);
    for l in &ex.log {
        println!("  {l}");
    }
    println!("  observation: {:?} abort={:?}", ex.obs, ex.abort);
    match (&ex.abort, &ex.obs) {
        (Some(Abort::Deadlock(d)), _) => vec![Violation::new("deadlock", h.name, d.clone(), case.clone())],
        (_, Some(o)) => match &o.result {
            Err((c, d)) => vec![Violation::new(c, h.name, d.clone(), case.clone())],
            Ok(()) => vec![],
        },
        _ => vec![],
    }
}
