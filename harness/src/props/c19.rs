//! C19 — I/O failures are reported, lose only the failing write, and logging recovers.
//!
//! Fault overlay: a fault-free execution of each history records the trace of file-system
//! points; then *every* (site, occurrence) x burst length 1..3 is executed with the guarded
//! early-error hook failing exactly those hits (second-order placements for the short history).
use super::{all_workers, default_cap, Prop};
use crate::env::Env;
use crate::family::{self, Role};
use crate::fl::{HOp, Hist};
use crate::hooks::FaultSpec;
use crate::lg::{Cfg, CleanK, CritK, ModeK, NamingK, NG};
use crate::report::{Meta, Out, Violation};
use crate::{run_isolated, Ran};
use serde_json::{json, Value};
use std::collections::BTreeSet;
use std::time::Duration;

pub fn prop() -> Prop {
    Prop {
        id: "C19",
        meta,
        units,
        run_unit,
        replay,
        bounds,
        wall_cap_s: default_cap,
        max_workers: all_workers,
    }
}

fn meta() -> Meta {
    Meta {
        id: "C19",
        level: "fault_enumeration",
        rule: "for every configuration (naming x cleanup x write mode x 0/1 earlier run) the trace of file-system points of the history W W W5 W W R W F Reopen W5 W W is recorded fault-free; then every (site, occurrence) x burst in 1..3 is failed plus every pair of two single faults at different sites (quick: for the direct-mode configurations without earlier run; thorough: all); distinct_nontrivial = distinct (configuration, site, occurrence, burst) whose fault hits a rotation, cleanup, compression or initialisation step (not a plain write); plus 12 background-cleanup configurations under the scheduler's canonical schedule, real ENOSPC on the compression target (symlink to /dev/full planted at gz_create), a duplicate stream that is a full device for three records, and the current file on a full device (every failure reported, the empty file is not closed by the size criterion); the log directory removed for three records and re-created (no panic, reported, logging resumes); a rename that really fails because the target name is a directory; a start whose rename fails for real (name too long); buffered / asynchronous mode with the current file on a full device (rotation, shutdown, reopen_output, reset_flw; recovery after the device problem is over); the size criterion holds except for operations whose rotation attempt hit a fault; the failing-duplicate-stream scenario has a second writer (log_to_file_and_writer) whose file must hold every record; no file descriptor left (soft RLIMIT_NOFILE = 0: every open and every directory listing really fails with EMFILE, rename / remove work) for three rotating records between three before and three after, naming x {direct, buffered} x clock step {0, 1 s} x cleanup {none, KeepLogFiles}: no panic, nothing logged before is destroyed, losses reported, the records after are written; the same with the logger stopped and a new one started (append on / off) while no descriptor is available; a fourth burst length 'until the faults are cleared'; with the interposition shim loaded every libc call of the subject that changes the directory tree (mkdir, rename, link, open with O_CREAT / O_TRUNC, unlink, symlink, opendir) is failed once (thorough: also in a burst of two and until cleared), whether or not a guarded hook precedes it; nested records (a message that logs while it is formatted) on a full device: both failures of a call reported; create_symlink with its path taken by a non-empty directory (12 cases): every record written, one file per record, the problem reported",
        assumptions: vec![
            "a failing file-system call has no effect and returns an io::Error of kind PermissionDenied (never NotFound, which two rename sites treat as benign)".into(),
            "faults are injected through the guarded fs_point hook directly before the call (the sandbox runs as root, permission bits do not bite)".into(),
            "cleanup runs in the logging thread; symlink sites and the directory listing cannot fail by injection (the code handles / unwraps them in place)".into(),
        ],
    }
}

const LIMIT: u64 = 15;
const INJECTABLE: [&str; 11] = ["write", "open", "rename", "cleanup_remove", "gz_create", "gz_open", "gz_copy", "gz_finish", "gz_remove", "reopen", "flush"];

#[derive(Clone, Debug)]
struct Case {
    cfg: Cfg,
    prior_run: bool,
    /// instead of hook-injected faults: each compressed file the fault-free run produces is, one
    /// at a time, made a symlink to /dev/full when the logger is about to create it (opening
    /// succeeds, every write really fails with ENOSPC); the symlink is removed when "operations
    /// succeed again"
    dev_full: bool,
}

fn grid() -> Vec<Case> {
    let mut g = Vec::new();
    for naming in NG {
        for clean in [CleanK::Never, CleanK::Log(1), CleanK::Gz(1)] {
            for mode in [ModeK::Direct, ModeK::BufDont(16)] {
                for prior_run in [false, true] {
                    let mut cfg = Cfg::rot(CritK::Size(LIMIT), naming, clean);
                    cfg.mode = mode;
                    g.push(Case {
                        cfg,
                        prior_run,
                        dev_full: false,
                    });
                }
            }
        }
    }
    // cleanup in the background thread (run under the scheduler's canonical "background threads
    // first" schedule, which makes the placement of faults deterministic)
    for naming in NG {
        for clean in [CleanK::Log(1), CleanK::Gz(1)] {
            let mut cfg = Cfg::rot(CritK::Size(LIMIT), naming, clean);
            cfg.bg_cleanup = true;
            g.push(Case {
                cfg,
                prior_run: false,
                dev_full: false,
            });
        }
    }
    // real write failures of the compression target (generous limit: nothing may be dropped)
    for naming in NG {
        for mode in [ModeK::Direct, ModeK::BufDont(16)] {
            let mut cfg = Cfg::rot(CritK::Size(LIMIT), naming, CleanK::Gz(100));
            cfg.mode = mode;
            g.push(Case {
                cfg,
                prior_run: false,
                dev_full: true,
            });
        }
    }
    g
}

fn word() -> Vec<HOp> {
    vec![HOp::W(20), HOp::W(20), HOp::W(5), HOp::W(20), HOp::W(20), HOp::R, HOp::W(20), HOp::F, HOp::Reopen, HOp::W(5), HOp::W(20), HOp::W(20)]
}
/// two more rotating writes after the history: a rotation and a cleanup with all faults cleared
fn recovery() -> Vec<HOp> {
    vec![HOp::W(20), HOp::W(20), HOp::W(20)]
}

fn units(_tier: &str) -> usize {
    grid().len() + dup_cases().len() + NG.len() + dir_cases().len() + RENAME_DIR_UNITS + fd_cases().len() + 1 + link_cases().len()
}
const RENAME_DIR_UNITS: usize = 6 + 2 * (NG.len() + 3) + 1;

// ---------------------------------------------------------------- no file descriptor left

fn fd_cases() -> Vec<(NamingK, ModeK, i64, CleanK, Option<bool>)> {
    let mut v = Vec::new();
    for naming in NG {
        for mode in [ModeK::Direct, ModeK::BufDont(16)] {
            for step in [0, 1] {
                for clean in [CleanK::Never, CleanK::Log(20)] {
                    v.push((naming, mode, step, clean, None));
                }
                // a restart (append on / off) while no descriptor is available
                for append in [false, true] {
                    v.push((naming, mode, step, CleanK::Never, Some(append)));
                }
            }
        }
    }
    v
}

/// Runs `f` while the process cannot get a new file descriptor (soft RLIMIT_NOFILE = 0: every
/// `open` and `read_dir` fails with EMFILE; descriptors that are open stay usable, `rename`,
/// `stat` and `unlink` need none). The worker process runs one scenario at a time.
fn without_descriptors<R>(f: impl FnOnce() -> R) -> Result<R, String> {
    let mut lim = libc::rlimit { rlim_cur: 0, rlim_max: 0 };
    // SAFETY: plain getrlimit / setrlimit on this process
    if unsafe { libc::getrlimit(libc::RLIMIT_NOFILE, &mut lim) } != 0 {
        return Err("getrlimit failed".into());
    }
    let zero = libc::rlimit { rlim_cur: 0, rlim_max: lim.rlim_max };
    if unsafe { libc::setrlimit(libc::RLIMIT_NOFILE, &zero) } != 0 {
        return Err("setrlimit failed".into());
    }
    let probe_fails = std::fs::File::open("/dev/null").is_err();
    let r = std::panic::catch_unwind(std::panic::AssertUnwindSafe(f));
    unsafe { libc::setrlimit(libc::RLIMIT_NOFILE, &lim) };
    if !probe_fails {
        return Err("a file could be opened although the descriptor limit is 0".into());
    }
    match r {
        Ok(v) => Ok(v),
        Err(p) => std::panic::resume_unwind(p),
    }
}

/// W W W [no descriptor available] W W W [available again] W W W, size limit below one record
/// (every write finds a rotation due), the clock advancing `step` seconds before every record.
/// While no descriptor is available the directory cannot be listed and no file can be opened
/// (rename and remove still work). Judged: no panic; every record logged *before* is still
/// completely in some file (a rotation that cannot see the directory must not rename onto, or
/// truncate, an existing file); if a record logged meanwhile is missing something was reported;
/// the three records logged afterwards are in the files.
fn run_fd_exhausted(naming: NamingK, mode: ModeK, step: i64, clean: CleanK) -> Result<usize, Fail> {
    use crate::capture::FdCapture;
    let env = Env::new("c19f");
    env.enter();
    let mut cfg = Cfg::rot(CritK::Size(LIMIT), naming, clean);
    cfg.mode = mode;
    // the error channel is stderr (captured): a file channel is opened for every message
    let cap_path = env.root.path().join("stderr.txt");
    let cap = FdCapture::start(2, cap_path.clone()).ok_or(Fail {
        clause: "machinery",
        detail: "cannot capture stderr".into(),
    })?;
    let built = cfg.logger(&env.dir, &env.err).error_channel(flexi_logger::ErrorChannel::StdErr).build();
    let (logger, handle) = match built {
        Ok(x) => x,
        Err(e) => {
            cap.restore();
            return Err(Fail {
                clause: "run-error",
                detail: format!("build: {e}"),
            });
        }
    };
    let mut lines: Vec<Vec<u8>> = Vec::new();
    let mut w = |n: usize, lines: &mut Vec<Vec<u8>>| {
        for _ in 0..n {
            env.clock.advance_secs(step);
            let msg = crate::lg::payload(0, lines.len(), 19);
            let mut l = msg.clone().into_bytes();
            l.push(b'\n');
            lines.push(l);
            crate::lg::log_info(&*logger, &msg);
            env.observe();
        }
    };
    w(3, &mut lines);
    if mode != ModeK::Direct {
        handle.flush();
    }
    let errs0 = crate::lg::read_errchan(&cap_path).len();
    let r = without_descriptors(|| w(3, &mut lines));
    env.observe();
    let errs_during = crate::lg::read_errchan(&cap_path).len().saturating_sub(errs0);
    if let Err(e) = r {
        cap.restore();
        return Err(Fail { clause: "machinery", detail: e });
    }
    w(3, &mut lines);
    handle.shutdown();
    drop(logger);
    // (the next build() in this process reports "palette already initialized" to the channel
    // configured now: make that the file again while stderr is still captured)
    drop(Cfg::norot().build_logger(&env.root.path().join("throwaway"), &env.err));
    let stderr_text = String::from_utf8_lossy(&cap.finish()).to_string();
    env.leave();
    let mut all = Vec::new();
    let names = family::list_names(&env.dir);
    for n in &names {
        all.extend(std::fs::read(env.dir.join(n)).unwrap_or_default());
    }
    let has = |l: &Vec<u8>| all.windows(l.len()).any(|x| x == l.as_slice());
    // (KeepLogFiles(20) never has anything to remove here; it makes the cleanup run, with a
    // directory it cannot list)
    for l in lines.iter().take(3) {
        if !has(l) {
            return Err(Fail {
                clause: "earlier-record-destroyed",
                detail: format!("record {:?}, logged and on disk before the process ran out of file descriptors, is in no file any more; files {names:?}; stderr {stderr_text:?}", String::from_utf8_lossy(l)),
            });
        }
    }
    let missing_during = lines[3..6].iter().filter(|l| !has(l)).count();
    if missing_during > 0 && errs_during == 0 {
        return Err(Fail {
            clause: "not-reported",
            detail: format!("{missing_during} of the three records logged while no file descriptor was available are in no file, and nothing was written to the error channel meanwhile; files {names:?}"),
        });
    }
    for l in &lines[6..] {
        if !has(l) {
            return Err(Fail {
                clause: "no-recovery",
                detail: format!("descriptors are available again, three more records were logged, but {:?} is in no file: {names:?}; stderr {stderr_text:?}", String::from_utf8_lossy(l)),
            });
        }
    }
    Ok(errs_during.min(9) * 10 + missing_during)
}


// ---------------------------------------------------------------- nested records on a full device; a blocked symlink path

/// No rotation, direct mode, the log file is a symlink to /dev/full; four log calls whose
/// message logs another record while it is formatted (two records per call, both writes fail
/// with ENOSPC): each of the two failures is reported during the call.
fn run_nested_full() -> Result<usize, Fail> {
    let env = Env::new("c19n");
    env.enter();
    let cfg = Cfg::norot();
    let planted: std::sync::Arc<std::sync::Mutex<Option<std::path::PathBuf>>> = std::sync::Arc::new(std::sync::Mutex::new(None));
    {
        let planted = std::sync::Arc::clone(&planted);
        let mut g = env.ctx.fs.lock().unwrap();
        g.enabled = true;
        g.on_hit = Some(Box::new(move |site, _occ, _idx, path| {
            let mut p = planted.lock().unwrap();
            if site == "open" && p.is_none() {
                std::os::unix::fs::symlink("/dev/full", path).ok();
                *p = Some(path.to_path_buf());
            }
        }));
    }
    let (logger, handle) = cfg.build_logger(&env.dir, &env.err).map_err(|e| Fail {
        clause: "run-error",
        detail: format!("build: {e}"),
    })?;
    let mut reported = 0;
    for i in 0..4 {
        let before = env.errlines().len();
        crate::lg::log_nested(&*logger, &format!("9.{i}:inner"), &format!("0.{i}:outer"));
        let after = env.errlines().len();
        if after - before < 2 {
            return Err(Fail {
                clause: "not-reported",
                detail: format!("log call {i} produced two records (the message logs another record while it is formatted); both writes went to a full device (ENOSPC) but only {} line(s) were written to the error channel meanwhile: {:?}", after - before, &env.errlines()[before..]),
            });
        }
        reported += after - before;
    }
    handle.shutdown();
    drop(logger);
    env.leave();
    Ok(reported)
}

fn link_cases() -> Vec<(NamingK, ModeK)> {
    let mut v = Vec::new();
    for n in NG {
        for m in [ModeK::Direct, ModeK::BufDont(16)] {
            v.push((n, m));
        }
    }
    v
}

/// create_symlink is configured, but its path is taken by a non-empty directory: removing the old
/// link and creating the new one fail at every start and rotation. Five rotating records: all of
/// them are in the files, in order, one file per record, and the problem is reported.
fn run_link_blocked(naming: NamingK, mode: ModeK) -> Result<usize, Fail> {
    let env = Env::new("c19l");
    env.enter();
    let mut cfg = Cfg::rot(CritK::Size(LIMIT), naming, CleanK::Never);
    cfg.mode = mode;
    cfg.symlink = true;
    let link = Cfg::symlink_path(&env.dir);
    std::fs::create_dir_all(&link).ok();
    std::fs::write(link.join("occupied"), b"x").ok();
    let mut h = Hist::new(&env, cfg.clone());
    for _ in 0..5 {
        env.clock.advance_secs(1);
        if let Err(crate::fl::StepErr::Build(e)) = h.apply(HOp::W(20)) {
            return Err(Fail {
                clause: "run-error",
                detail: format!("build: {e}"),
            });
        }
    }
    let reported = env.errlines().len();
    let want = h.stream();
    h.stop();
    drop(h);
    env.leave();
    let scan = family::scan(&env.dir, &cfg.parts, None, cfg.naming(), &[]);
    let got = scan.stream(&env.dir).map_err(|e| Fail { clause: "run-error", detail: e })?;
    if got != want {
        return Err(Fail {
            clause: "unrelated-record-lost",
            detail: format!("only the symlink operations fail (the link path is a non-empty directory); every record must be written: files {:?} hold {:?}, logged {:?}; error channel {:?}", scan.names(), String::from_utf8_lossy(&got), String::from_utf8_lossy(&want), env.errlines()),
        });
    }
    if scan.members.len() != 5 {
        return Err(Fail {
            clause: "partition-disturbed",
            detail: format!("five records above the size limit make five files; found {:?}", scan.names()),
        });
    }
    if reported == 0 {
        return Err(Fail {
            clause: "not-reported",
            detail: "the symlink could never be created (its path is a non-empty directory) but nothing was written to the error channel".into(),
        });
    }
    Ok(reported)
}

fn run_extra_unit(idx: usize, unit: usize, out: &mut Out) {
    let case = json!({"unit": unit, "extra": idx});
    let (cause, descr): (String, String) = if idx == 0 {
        ("nested-records-on-full-device/direct".into(), "no rotation, direct mode, log file is a symlink to /dev/full, four log calls with a nested record each".into())
    } else {
        let (n, m) = link_cases()[idx - 1];
        (format!("symlink-path-blocked/{}/{}", n.short(), super::c08::mode_class(m)), format!("naming {n:?}, {m:?}, create_symlink with the link path taken by a non-empty directory, five rotating records"))
    };
    let mut vs = Vec::new();
    for _ in 0..2 {
        out.evaluations += 1;
        out.transitions += 5;
        let r = if idx == 0 {
            run_isolated(Duration::from_secs(30), run_nested_full)
        } else {
            let (n, m) = link_cases()[idx - 1];
            run_isolated(Duration::from_secs(30), move || run_link_blocked(n, m))
        };
        match r {
            Ran::Done(Ok(n)) => {
                out.outcome(format!("{}: error lines={}", if idx == 0 { "nested on full device" } else { "symlink path blocked" }, n.min(9)));
                break;
            }
            Ran::Done(Err(f)) => vs.push(Violation::new(f.clause, cause.clone(), format!("{descr}\n  {}", f.detail), case.clone())),
            Ran::Panicked(m) => vs.push(Violation::new("panic", cause.clone(), format!("{descr}\n  {m}"), case.clone())),
            Ran::Hung => vs.push(Violation::new("hang", cause.clone(), descr.clone(), case.clone())),
        }
    }
    out.state(&(unit, "extra"));
    out.nontrivial(&(unit, "extra"));
    if vs.len() == 2 && vs[0].key() == vs[1].key() {
        out.violation(vs.remove(0));
    } else if !vs.is_empty() {
        out.violation(Violation::new("nondeterministic", "replay-diverged", vs[0].detail.clone(), case));
    }
}


/// As `run_fd_exhausted`, but the logger is stopped after the first three records and a new one
/// is started (append on / off) *while no descriptor is available*: the start-up decisions (which
/// number comes next, whether a name is taken) are made without being able to list the
/// directory. Nothing logged by the first run may be destroyed.
fn run_fd_exhausted_restart(naming: NamingK, mode: ModeK, step: i64, append: bool) -> Result<usize, Fail> {
    use crate::capture::FdCapture;
    let env = Env::new("c19g");
    env.enter();
    let mut cfg = Cfg::rot(CritK::Size(LIMIT), naming, CleanK::Never);
    cfg.mode = mode;
    let cap_path = env.root.path().join("stderr.txt");
    let cap = FdCapture::start(2, cap_path.clone()).ok_or(Fail {
        clause: "machinery",
        detail: "cannot capture stderr".into(),
    })?;
    let mut lines: Vec<Vec<u8>> = Vec::new();
    let w = |logger: &dyn log::Log, n: usize, lines: &mut Vec<Vec<u8>>| {
        for _ in 0..n {
            env.clock.advance_secs(step);
            let msg = crate::lg::payload(0, lines.len(), 19);
            let mut l = msg.clone().into_bytes();
            l.push(b'\n');
            lines.push(l);
            crate::lg::log_info(logger, &msg);
            env.observe();
        }
    };
    let fail = |cap: FdCapture, clause: &'static str, detail: String| {
        cap.restore();
        Err(Fail { clause, detail })
    };
    let first = cfg.logger(&env.dir, &env.err).error_channel(flexi_logger::ErrorChannel::StdErr).build();
    let (l1, h1) = match first {
        Ok(x) => x,
        Err(e) => return fail(cap, "run-error", format!("build: {e}")),
    };
    w(&*l1, 3, &mut lines);
    h1.shutdown();
    drop(l1);
    drop(h1);
    env.observe();
    env.clock.advance_secs(step);
    cfg.append = append;
    let errs0 = crate::lg::read_errchan(&cap_path).len();
    let mut second = None;
    let mut during = 0usize;
    let r = without_descriptors(|| {
        if let Ok((l2, h2)) = cfg.logger(&env.dir, &env.err).error_channel(flexi_logger::ErrorChannel::StdErr).build() {
            w(&*l2, 3, &mut lines);
            during = 3;
            second = Some((l2, h2));
        }
    });
    env.observe();
    let errs_during = crate::lg::read_errchan(&cap_path).len().saturating_sub(errs0);
    if let Err(e) = r {
        return fail(cap, "machinery", e);
    }
    let (l2, h2) = match second {
        Some(x) => x,
        None => match cfg.logger(&env.dir, &env.err).error_channel(flexi_logger::ErrorChannel::StdErr).build() {
            Ok(x) => x,
            Err(e) => return fail(cap, "run-error", format!("build after the descriptors are back: {e}")),
        },
    };
    w(&*l2, 3, &mut lines);
    h2.shutdown();
    drop(l2);
    drop(Cfg::norot().build_logger(&env.root.path().join("throwaway"), &env.err));
    let stderr_text = String::from_utf8_lossy(&cap.finish()).to_string();
    env.leave();
    let mut all = Vec::new();
    let names = family::list_names(&env.dir);
    for n in &names {
        all.extend(std::fs::read(env.dir.join(n)).unwrap_or_default());
    }
    let has = |l: &Vec<u8>| all.windows(l.len()).any(|x| x == l.as_slice());
    for l in lines.iter().take(3) {
        if !has(l) {
            return Err(Fail {
                clause: "earlier-record-destroyed",
                detail: format!("record {:?} of the first run is in no file any more after a logger was started (append={append}) while the process had no file descriptor left; files {names:?}; stderr {stderr_text:?}", String::from_utf8_lossy(l)),
            });
        }
    }
    let missing_during = lines[3..3 + during].iter().filter(|l| !has(l)).count();
    if missing_during > 0 && errs_during == 0 {
        return Err(Fail {
            clause: "not-reported",
            detail: format!("{missing_during} of the three records logged while no file descriptor was available are in no file, and nothing was written to the error channel meanwhile; files {names:?}"),
        });
    }
    for l in &lines[3 + during..] {
        if !has(l) {
            return Err(Fail {
                clause: "no-recovery",
                detail: format!("descriptors are available again, three more records were logged, but {:?} is in no file: {names:?}; stderr {stderr_text:?}", String::from_utf8_lossy(l)),
            });
        }
    }
    Ok(errs_during.min(9) * 10 + missing_during)
}

fn run_fd_unit(idx: usize, unit: usize, out: &mut Out) {
    let (naming, mode, step, clean, restart) = fd_cases()[idx];
    let case = json!({"unit": unit, "fd_exhausted": idx});
    let cause = format!("no-file-descriptor/{}/{}/step{step}/{}{}", naming.short(), super::c08::mode_class(mode), if clean == CleanK::Never { "never" } else { "keeplog" }, match restart {
        None => "",
        Some(false) => "/restart-no-append",
        Some(true) => "/restart-append",
    });
    let mut vs = Vec::new();
    for _ in 0..2 {
        out.evaluations += 1;
        out.transitions += 9;
        match run_isolated(Duration::from_secs(30), move || match restart {
            None => run_fd_exhausted(naming, mode, step, clean),
            Some(a) => run_fd_exhausted_restart(naming, mode, step, a),
        }) {
            Ran::Done(Ok(n)) => {
                out.outcome(format!("no descriptors: error lines={} lost meanwhile={}", n / 10, n % 10));
                break;
            }
            Ran::Done(Err(f)) => vs.push(Violation::new(f.clause, cause.clone(), format!("naming {naming:?}, {mode:?}, cleanup {clean:?}, size limit {LIMIT}, clock step {step} s; history W W W {}[RLIMIT_NOFILE=0] W W W [restored] W W W\n  {}", if restart.is_some() { "[stop] [start under] " } else { "" }, f.detail), case.clone())),
            Ran::Panicked(m) => vs.push(Violation::new("panic", cause.clone(), format!("naming {naming:?}, {mode:?}, cleanup {clean:?}; history W W W [RLIMIT_NOFILE=0] W W W [restored] W W W\n  a log call panicked: {m}"), case.clone())),
            Ran::Hung => vs.push(Violation::new("hang", cause.clone(), String::new(), case.clone())),
        }
    }
    out.state(&(unit, "fd"));
    out.nontrivial(&(unit, "fd"));
    if vs.len() == 2 && vs[0].key() == vs[1].key() {
        out.violation(vs.remove(0));
    } else if !vs.is_empty() {
        out.violation(Violation::new("nondeterministic", "replay-diverged", vs[0].detail.clone(), case));
    }
}

// ---------------------------------------------------------------- a rename that really fails

/// Numbers naming: the name the next rotation renames rCURRENT to is taken by a directory, so
/// the rename really fails (EISDIR). W W [mkdir app_r00001.log] W W [rmdir] W W W: nothing
/// logged before may be lost (a rotation that cannot move rCURRENT away must not truncate it),
/// the failure is reported, only the two records logged meanwhile may be missing, and logging
/// and rotation resume.
fn run_rename_dir(mode: ModeK) -> Result<usize, Fail> {
    let env = Env::new("c19n");
    env.enter();
    let mut cfg = Cfg::rot(CritK::Size(LIMIT), NamingK::Numbers, CleanK::Never);
    cfg.mode = mode;
    let mut h = Hist::new(&env, cfg.clone());
    let step = |h: &mut Hist| -> Result<(), Fail> {
        match h.apply(HOp::W(20)) {
            Err(crate::fl::StepErr::Build(e)) => Err(Fail {
                clause: "run-error",
                detail: format!("build: {e}"),
            }),
            _ => Ok(()),
        }
    };
    step(&mut h)?;
    step(&mut h)?;
    let obstacle = env.dir.join("app_r00001.log");
    std::fs::create_dir_all(&obstacle).and_then(|()| std::fs::write(obstacle.join("x"), b"x")).map_err(|e| Fail {
        clause: "machinery",
        detail: e.to_string(),
    })?;
    let errs0 = env.errlines().len();
    let exempt_from = h.accepted.len();
    step(&mut h)?;
    step(&mut h)?;
    let exempt_to = h.accepted.len();
    let reported = env.errlines().len() - errs0;
    std::fs::remove_dir_all(&obstacle).ok();
    for _ in 0..3 {
        step(&mut h)?;
    }
    let lines = h.accepted.clone();
    h.stop();
    drop(h);
    env.leave();
    if reported == 0 {
        return Err(Fail {
            clause: "not-reported",
            detail: "the rotation could not rename rCURRENT (the target name is a directory) but nothing was written to the error channel".into(),
        });
    }
    let scan = family::scan(&env.dir, &cfg.parts, None, cfg.naming(), &[]);
    let stream = scan.stream(&env.dir).map_err(|e| Fail {
        clause: "run-error",
        detail: e,
    })?;
    let (found, _) = family::split_lines(&stream, "\n");
    let texts: Vec<String> = lines.iter().map(|l| String::from_utf8_lossy(&l[..l.len() - 1]).to_string()).collect();
    let mut pos = 0;
    for (i, t) in texts.iter().enumerate() {
        match found[pos..].iter().position(|f| f == t) {
            Some(p) => pos += p + 1,
            None if (exempt_from..exempt_to).contains(&i) => {}
            None => {
                return Err(Fail {
                    clause: "unrelated-record-lost",
                    detail: format!("record {t:?} (#{i}) is missing or out of order although it was not logged while the rename failed (those are #{exempt_from}..#{exempt_to}); files {:?} hold {found:?}", scan.names()),
                })
            }
        }
    }
    if found.last() != texts.last() {
        return Err(Fail {
            clause: "no-recovery",
            detail: format!("the last record logged after the obstacle was removed is not the last line: {found:?}"),
        });
    }
    Ok(reported)
}

/// Timestamp namings with a current infix, restart without append: the start renames the
/// existing current file to a timestamp name. With a basename of 235 characters the current
/// file's name is legal but every timestamp name is too long, so that rename really fails
/// (ENAMETOOLONG). W W [restart without append] W: the failure is reported (by build() or on the
/// error channel), and the records of the first run are still there - a start that cannot move
/// the old current file away must not truncate it.
fn run_long_name(naming: NamingK, mode: ModeK) -> Result<usize, Fail> {
    let env = Env::new("c19l");
    env.enter();
    let mut cfg = Cfg::rot(CritK::Size(1000), naming, CleanK::Never);
    cfg.mode = mode;
    cfg.parts.basename = Some("b".repeat(235));
    let mut h = Hist::new(&env, cfg.clone());
    for _ in 0..2 {
        if let Err(e) = h.apply(HOp::W(20)) {
            return Err(Fail {
                clause: "run-error",
                detail: format!("first run: {e:?}"),
            });
        }
    }
    let first: Vec<Vec<u8>> = h.accepted.clone();
    let errs0 = env.errlines().len();
    let mut reported = 0;
    match h.apply(HOp::Restart(false)) {
        Err(_) => reported += 1,
        Ok(()) => {
            if h.apply(HOp::W(20)).is_err() {
                reported += 1;
            }
        }
    }
    reported += env.errlines().len() - errs0;
    h.stop();
    drop(h);
    env.leave();
    let scan = family::scan(&env.dir, &cfg.parts, None, cfg.naming(), &[]);
    let stream = scan.stream(&env.dir).map_err(|e| Fail {
        clause: "run-error",
        detail: e,
    })?;
    let (found, _) = family::split_lines(&stream, "\n");
    for l in &first {
        let t = String::from_utf8_lossy(&l[..l.len() - 1]).to_string();
        if !found.contains(&t) {
            return Err(Fail {
                clause: "unrelated-record-lost",
                detail: format!("record {t:?} of the first run is gone after a restart whose rename of the current file failed; files {:?} hold {found:?}", scan.names().iter().map(|n| format!("..{}", &n[n.len().saturating_sub(30)..])).collect::<Vec<_>>()),
            });
        }
    }
    if reported == 0 {
        return Err(Fail {
            clause: "not-reported",
            detail: "the start could not rename the current file (name too long) but neither build() nor the error channel said so".into(),
        });
    }
    Ok(reported)
}

/// Buffered mode (capacity 64 > record size), the first file the logger opens is a symlink to
/// /dev/full: the records are accepted into the buffer, and what is in the buffer when the file
/// is closed by a rotation cannot be written. W x 6, shutdown: that loss is reported, the
/// records logged after the rotation (the next file is a regular one) are all there, and no
/// empty file is closed.
fn run_cur_full_buffered(naming: Option<NamingK>, closer: usize, mode: ModeK) -> Result<usize, Fail> {
    let env = Env::new("c19b");
    env.enter();
    // (without rotation: two records, both are still in the buffer at shutdown)
    let mut cfg = match naming {
        Some(n) => Cfg::rot(CritK::Size(LIMIT), n, CleanK::Never),
        None => Cfg::norot(),
    };
    cfg.mode = mode;
    let planted: std::sync::Arc<std::sync::Mutex<Option<std::path::PathBuf>>> = std::sync::Arc::new(std::sync::Mutex::new(None));
    {
        let planted = std::sync::Arc::clone(&planted);
        let mut g = env.ctx.fs.lock().unwrap();
        g.enabled = true;
        g.on_hit = Some(Box::new(move |site, _occ, _idx, path| {
            let mut p = planted.lock().unwrap();
            if site == "open" && p.is_none() {
                std::os::unix::fs::symlink("/dev/full", path).ok();
                *p = Some(path.to_path_buf());
            }
        }));
    }
    let mut h = Hist::new(&env, cfg.clone());
    for _ in 0..(if naming.is_some() { 6 } else { 2 }) {
        if let Err(crate::fl::StepErr::Build(e)) = h.apply(HOp::W(20)) {
            return Err(Fail {
                clause: "run-error",
                detail: format!("build: {e}"),
            });
        }
    }
    let lines = h.accepted.clone();
    // without rotation, the file is closed by shutdown(), by reopen_output() or by reset_flw()
    let how = ["shutdown()", "reopen_output()", "reset_flw()"][closer.min(2)];
    // (asynchronous mode: only shutdown() - the other two would race with the writer thread)
    if naming.is_none() && closer > 0 && !mode.is_async() {
        let by_result = usize::from(h.apply(if closer == 1 { HOp::Reopen } else { HOp::ResetSame }).is_err());
        let reported = env.errlines().len() + by_result;
        if reported == 0 {
            h.stop();
            drop(h);
            env.leave();
            return Err(Fail {
                clause: "not-reported",
                detail: format!("two records were accepted into the buffer of a file on a full device; {how} closed that file and could not write them, but neither its result nor the error channel said so"),
            });
        }
    }
    if naming.is_none() && closer == 1 && !mode.is_async() {
        // the device problem is over - the path is free again: another reopen_output() must
        // recover, whatever could not be written to the old file
        let victim = planted.lock().unwrap().clone();
        if let Some(p) = &victim {
            std::fs::remove_file(p).ok();
        }
        let _ = h.apply(HOp::Reopen);
        let _ = h.apply(HOp::W(20));
        let _ = h.apply(HOp::W(20));
        let last = h.accepted.last().cloned().unwrap_or_default();
        h.stop();
        drop(h);
        env.leave();
        let content = victim.as_ref().and_then(|p| std::fs::read(p).ok()).unwrap_or_default();
        return if content.ends_with(&last) && std::fs::symlink_metadata(victim.unwrap_or_default()).is_ok_and(|m| m.is_file()) {
            Ok(env.errlines().len())
        } else {
            Err(Fail {
                clause: "no-recovery",
                detail: format!("the symlink to the full device was removed and reopen_output() called again, two records logged: the file at the path holds {:?}", String::from_utf8_lossy(&content)),
            })
        };
    }
    h.stop();
    drop(h);
    env.leave();
    let reported = env.errlines().len();
    if naming.is_none() {
        return if reported == 0 {
            Err(Fail {
                clause: "not-reported",
                detail: format!("two records were accepted into the buffer of a file on a full device; {how} could not write them, but nothing was written to the error channel"),
            })
        } else {
            Ok(reported)
        };
    }
    // what the files hold (the planted symlink reads as empty)
    let mut held: Vec<String> = Vec::new();
    let mut empty_regular = Vec::new();
    for n in family::list_names(&env.dir) {
        let p = env.dir.join(&n);
        if std::fs::symlink_metadata(&p).map(|m| m.file_type().is_symlink()).unwrap_or(false) {
            continue;
        }
        let b = std::fs::read(&p).unwrap_or_default();
        if b.is_empty() {
            empty_regular.push(n.clone());
        }
        held.extend(family::split_lines(&b, "\n").0);
    }
    let texts: Vec<String> = lines.iter().map(|l| String::from_utf8_lossy(&l[..l.len() - 1]).to_string()).collect();
    let missing: Vec<&String> = texts.iter().filter(|t| !held.contains(t)).collect();
    if !missing.is_empty() && reported == 0 {
        return Err(Fail {
            clause: "not-reported",
            detail: format!("records {missing:?} were accepted into the buffer of a file on a full device and are in no file, but nothing was written to the error channel"),
        });
    }
    if mode.is_async() {
        // the asynchronous writer thread writes unbuffered: every record fails on its own (and
        // is reported on its own), the size criterion sees an empty file and does not rotate
        return if reported < missing.len() {
            Err(Fail {
                clause: "not-reported",
                detail: format!("{} records are in no file ({missing:?}) but only {reported} line(s) were written to the error channel", missing.len()),
            })
        } else if !empty_regular.is_empty() {
            Err(Fail {
                clause: "closed-early",
                detail: format!("empty files {empty_regular:?} next to the file on the full device"),
            })
        } else {
            Ok(reported)
        };
    }
    if missing.len() > 1 {
        return Err(Fail {
            clause: "unrelated-record-lost",
            detail: format!("only the record that was buffered for the file on the full device can be missing (the file is closed by the next record's rotation, the next file is a regular one), but {missing:?} are missing; files {:?}", family::list_names(&env.dir)),
        });
    }
    if empty_regular.len() > 1 || held.last() != texts.last() {
        return Err(Fail {
            clause: "no-recovery",
            detail: format!("empty files {empty_regular:?}; the files hold {held:?}"),
        });
    }
    Ok(reported)
}

/// flush() reaches every writer, also when one of them cannot flush: the primary file (buffered)
/// is a symlink to /dev/full, an additional buffered FileLogWriter is healthy. W W to both, then
/// LoggerHandle::flush(): the failure is reported and the healthy file holds its records.
fn run_flush_fanout() -> Result<usize, Fail> {
    let env = Env::new("c19f");
    env.enter();
    let mut cfg = Cfg::norot();
    cfg.mode = ModeK::BufDont(64);
    {
        let mut g = env.ctx.fs.lock().unwrap();
        g.enabled = true;
        let planted = std::sync::Arc::new(std::sync::Mutex::new(false));
        g.on_hit = Some(Box::new(move |site, _occ, _idx, path| {
            let mut p = planted.lock().unwrap();
            if site == "open" && !*p && path.file_name().is_some_and(|n| n.to_string_lossy().starts_with("app")) {
                std::os::unix::fs::symlink("/dev/full", path).ok();
                *p = true;
            }
        }));
    }
    let xdir = env.dir.join("x");
    let xw = flexi_logger::writers::FileLogWriter::builder(flexi_logger::FileSpec::default().directory(&xdir).basename("x").suppress_timestamp())
        .format(crate::lg::payload_format)
        .write_mode(flexi_logger::WriteMode::BufferDontFlushWith(64))
        .try_build()
        .map_err(|e| Fail {
            clause: "run-error",
            detail: e.to_string(),
        })?;
    let (logger, handle) = cfg.logger(&env.dir, &env.err).add_writer("X", Box::new(xw)).build().map_err(|e| Fail {
        clause: "run-error",
        detail: e.to_string(),
    })?;
    let mut want = Vec::new();
    for i in 0..2 {
        let m = crate::lg::payload(0, i, 9);
        crate::lg::log_to(&*logger, log::Level::Info, "{X,_Default}", &m);
        want.extend(m.as_bytes());
        want.push(b'\n');
    }
    handle.flush();
    let got = std::fs::read(xdir.join("x.log")).unwrap_or_default();
    let reported = env.errlines().len();
    handle.shutdown();
    drop(logger);
    drop(handle);
    env.leave();
    if got != want {
        return Err(Fail {
            clause: "unrelated-record-lost",
            detail: format!("flush() returned (the primary file is on a full device and cannot be flushed): the healthy additional writer's file holds {:?}, its records are {:?}", String::from_utf8_lossy(&got), String::from_utf8_lossy(&want)),
        });
    }
    Ok(reported)
}

fn run_rename_dir_unit(idx: usize, unit: usize, out: &mut Out) {
    if idx >= 6 + 2 * (NG.len() + 3) {
        let case = json!({"unit": unit, "rename_dir": idx});
        let cause = "flush-with-a-failing-writer/buffered".to_string();
        out.evaluations += 1;
        match run_isolated(Duration::from_secs(30), run_flush_fanout) {
            Ran::Done(Ok(n)) => out.outcome(format!("flush fan-out: error lines={}", n.min(9))),
            Ran::Done(Err(f)) => out.violation(Violation::new(f.clause, cause, f.detail, case)),
            Ran::Panicked(m) => out.violation(Violation::new("panic", cause, m, case)),
            Ran::Hung => out.violation(Violation::new("hang", cause, String::new(), case)),
        }
        out.state(&(unit, "flush_fanout"));
        out.nontrivial(&(unit, "flush_fanout"));
        return;
    }
    if idx >= 6 {
        let per_mode = NG.len() + 3;
        let mode = [ModeK::BufDont(64), ModeK::Async(1, 64, 0)][(idx - 6) / per_mode];
        let idx = 6 + (idx - 6) % per_mode;
        let naming = NG.get(idx - 6).copied();
        let closer = (idx - 6).saturating_sub(NG.len());
        let case = json!({"unit": unit, "rename_dir": idx + if mode.is_async() { per_mode } else { 0 }});
        let cause = format!("current-file-on-full-device/{}/{}", if mode.is_async() { "async" } else { "buffered" }, naming.map_or(["no-rotation", "no-rotation/reopen", "no-rotation/reset"][closer.min(2)], |n| n.short()));
        let mut vs = Vec::new();
        for _ in 0..2 {
            out.evaluations += 1;
            out.transitions += 7;
            match run_isolated(Duration::from_secs(30), move || run_cur_full_buffered(naming, closer, mode)) {
                Ran::Done(Ok(n)) => {
                    out.outcome(format!("current file full (buffered): error lines={}", n.min(9)));
                    break;
                }
                Ran::Done(Err(f)) => vs.push(Violation::new(f.clause, cause.clone(), format!("naming {naming:?}, {mode:?}, size limit {LIMIT}, six records of 20 bytes, shutdown; the first file the logger opens is a symlink to /dev/full\n  {}", f.detail), case.clone())),
                Ran::Panicked(m) => vs.push(Violation::new("panic", cause.clone(), m, case.clone())),
                Ran::Hung => vs.push(Violation::new("hang", cause.clone(), String::new(), case.clone())),
            }
        }
        out.state(&(unit, "cur_full_buffered"));
        out.nontrivial(&(unit, "cur_full_buffered"));
        if vs.len() == 2 && vs[0].key() == vs[1].key() {
            out.violation(vs.remove(0));
        } else if !vs.is_empty() {
            out.violation(Violation::new("nondeterministic", "replay-diverged", vs[0].detail.clone(), case));
        }
        return;
    }
    if idx >= 2 {
        let naming = [NamingK::Timestamps, NamingK::CustomCur][(idx - 2) / 2];
        let mode = [ModeK::Direct, ModeK::BufDont(16)][idx % 2];
        let case = json!({"unit": unit, "rename_dir": idx});
        let cause = format!("rename-target-name-too-long/{}/{}", naming.short(), super::c08::mode_class(mode));
        let mut vs = Vec::new();
        for _ in 0..2 {
            out.evaluations += 1;
            out.transitions += 4;
            match run_isolated(Duration::from_secs(30), move || run_long_name(naming, mode)) {
                Ran::Done(Ok(n)) => {
                    out.outcome(format!("rename really fails (name too long): reports={}", n.min(9)));
                    break;
                }
                Ran::Done(Err(f)) => vs.push(Violation::new(f.clause, cause.clone(), format!("{naming:?}, basename of 235 characters, mode {mode:?}; history W W [restart without append] W\n  {}", f.detail), case.clone())),
                Ran::Panicked(m) => vs.push(Violation::new("panic", cause.clone(), m, case.clone())),
                Ran::Hung => vs.push(Violation::new("hang", cause.clone(), String::new(), case.clone())),
            }
        }
        out.state(&(unit, "long_name"));
        out.nontrivial(&(unit, "long_name"));
        if vs.len() == 2 && vs[0].key() == vs[1].key() {
            out.violation(vs.remove(0));
        } else if !vs.is_empty() {
            out.violation(Violation::new("nondeterministic", "replay-diverged", vs[0].detail.clone(), case));
        }
        return;
    }
    let mode = [ModeK::Direct, ModeK::BufDont(16)][idx % 2];
    let case = json!({"unit": unit, "rename_dir": idx});
    let cause = format!("rename-target-is-a-directory/Num/{}", super::c08::mode_class(mode));
    let mut vs = Vec::new();
    for _ in 0..2 {
        out.evaluations += 1;
        out.transitions += 7;
        match run_isolated(Duration::from_secs(30), move || run_rename_dir(mode)) {
            Ran::Done(Ok(n)) => {
                out.outcome(format!("rename really fails: error lines={}", n.min(9)));
                break;
            }
            Ran::Done(Err(f)) => vs.push(Violation::new(f.clause, cause.clone(), format!("Numbers, size limit {LIMIT}, mode {mode:?}; history W W [mkdir app_r00001.log] W W [rmdir] W W W\n  {}", f.detail), case.clone())),
            Ran::Panicked(m) => vs.push(Violation::new("panic", cause.clone(), m, case.clone())),
            Ran::Hung => vs.push(Violation::new("hang", cause.clone(), String::new(), case.clone())),
        }
    }
    out.state(&(unit, "rename_dir"));
    out.nontrivial(&(unit, "rename_dir"));
    if vs.len() == 2 && vs[0].key() == vs[1].key() {
        out.violation(vs.remove(0));
    } else if !vs.is_empty() {
        out.violation(Violation::new("nondeterministic", "replay-diverged", vs[0].detail.clone(), case));
    }
}

// ---------------------------------------------------------------- the log directory disappears

fn dir_cases() -> Vec<(NamingK, CleanK, ModeK)> {
    let mut v = Vec::new();
    for naming in NG {
        for clean in [CleanK::Never, CleanK::Log(1)] {
            for mode in [ModeK::Direct, ModeK::BufDont(16)] {
                v.push((naming, clean, mode));
            }
        }
    }
    v
}

/// W W [the log directory is removed with everything in it] W W W [an empty directory is created
/// again] W W W: every log call returns normally (no panic), the failures are reported, and once
/// the directory exists again logging resumes (the last record is in a file).
fn run_dir_removed(naming: NamingK, clean: CleanK, mode: ModeK) -> Result<usize, Fail> {
    let env = Env::new("c19r");
    env.enter();
    let mut cfg = Cfg::rot(CritK::Size(LIMIT), naming, clean);
    cfg.mode = mode;
    let mut h = Hist::new(&env, cfg.clone());
    let step = |h: &mut Hist, what: &str| -> Result<(), Fail> {
        match h.apply(HOp::W(20)) {
            Err(crate::fl::StepErr::Build(e)) => Err(Fail {
                clause: "run-error",
                detail: format!("{what}: build: {e}"),
            }),
            _ => Ok(()),
        }
    };
    step(&mut h, "before")?;
    step(&mut h, "before")?;
    std::fs::remove_dir_all(&env.dir).map_err(|e| Fail {
        clause: "machinery",
        detail: e.to_string(),
    })?;
    let errs0 = env.errlines().len();
    for _ in 0..3 {
        step(&mut h, "directory missing")?;
    }
    let reported = env.errlines().len() - errs0;
    if reported == 0 {
        return Err(Fail {
            clause: "not-reported",
            detail: "three records were logged while the log directory did not exist (rotation cannot open the next file) but nothing was written to the error channel".into(),
        });
    }
    std::fs::create_dir_all(&env.dir).ok();
    for _ in 0..3 {
        step(&mut h, "directory back")?;
    }
    let last = h.accepted.last().cloned().unwrap_or_default();
    h.stop();
    drop(h);
    env.leave();
    let mut all = Vec::new();
    for n in family::list_names(&env.dir) {
        all.extend(std::fs::read(env.dir.join(&n)).unwrap_or_default());
    }
    if !all.ends_with(&last) && !all.windows(last.len().max(1)).any(|w| w == last.as_slice()) {
        return Err(Fail {
            clause: "no-recovery",
            detail: format!("the directory exists again and three more (rotating) records were logged, but the last one {:?} is in no file: {:?}", String::from_utf8_lossy(&last), family::list_names(&env.dir)),
        });
    }
    Ok(reported)
}

fn run_dir_unit(idx: usize, unit: usize, out: &mut Out) {
    let (naming, clean, mode) = dir_cases()[idx];
    let case = json!({"unit": unit, "dir_removed": idx});
    let cause = format!("log-directory-removed/{}/{}/{}", naming.short(), if clean == CleanK::Never { "never" } else { "keeplog" }, super::c08::mode_class(mode));
    let mut vs = Vec::new();
    for _ in 0..2 {
        out.evaluations += 1;
        out.transitions += 8;
        match run_isolated(Duration::from_secs(30), move || run_dir_removed(naming, clean, mode)) {
            Ran::Done(Ok(n)) => {
                out.outcome(format!("directory removed: error lines={}", n.min(9)));
                break;
            }
            Ran::Done(Err(f)) => vs.push(Violation::new(f.clause, cause.clone(), format!("naming {naming:?}, cleanup {clean:?}, mode {mode:?}; history W W [rm -r logdir] W W W [mkdir logdir] W W W\n  {}", f.detail), case.clone())),
            Ran::Panicked(m) => vs.push(Violation::new("panic", cause.clone(), format!("naming {naming:?}, cleanup {clean:?}, mode {mode:?}; history W W [rm -r logdir] W W W [mkdir logdir] W W W\n  a log call panicked: {m}"), case.clone())),
            Ran::Hung => vs.push(Violation::new("hang", cause.clone(), String::new(), case.clone())),
        }
    }
    out.state(&(unit, "dir"));
    out.nontrivial(&(unit, "dir"));
    if vs.len() == 2 && vs[0].key() == vs[1].key() {
        out.violation(vs.remove(0));
    } else if !vs.is_empty() {
        out.violation(Violation::new("nondeterministic", "replay-diverged", vs[0].detail.clone(), case));
    }
}

// ---------------------------------------------------------------- current file on a full device

/// The file the logger opens first is a symlink to /dev/full (planted when the logger is about
/// to open it): every write really fails with ENOSPC. Each failure must be reported, and - the
/// file holds nothing - the size criterion must not close it (C08: no file is closed early).
fn run_cur_full(naming: NamingK) -> Result<usize, Fail> {
    let env = Env::new("c19c");
    env.enter();
    let cfg = Cfg::rot(CritK::Size(LIMIT), naming, CleanK::Never);
    let planted: std::sync::Arc<std::sync::Mutex<Option<std::path::PathBuf>>> = std::sync::Arc::new(std::sync::Mutex::new(None));
    {
        let planted = std::sync::Arc::clone(&planted);
        let mut g = env.ctx.fs.lock().unwrap();
        g.enabled = true;
        g.on_hit = Some(Box::new(move |site, _occ, _idx, path| {
            let mut p = planted.lock().unwrap();
            if site == "open" && p.is_none() {
                std::os::unix::fs::symlink("/dev/full", path).ok();
                *p = Some(path.to_path_buf());
            }
        }));
    }
    let mut h = Hist::new(&env, cfg.clone());
    let mut reported = 0;
    for i in 0..6 {
        let before = env.errlines().len();
        if let Err(crate::fl::StepErr::Build(e)) = h.apply(HOp::W(20)) {
            return Err(Fail {
                clause: "run-error",
                detail: format!("build: {e}"),
            });
        }
        let after = env.errlines().len();
        if after == before {
            return Err(Fail {
                clause: "not-reported",
                detail: format!("write {i} went to a full device (ENOSPC) but nothing was written to the error channel"),
            });
        }
        reported += after - before;
        let names = family::list_names(&env.dir);
        let victim = planted.lock().unwrap().clone();
        let victim_name = victim.as_ref().and_then(|p| p.file_name()).map(|f| f.to_string_lossy().to_string());
        if names.len() != 1 || names.first() != victim_name.as_ref() {
            return Err(Fail {
                clause: "closed-early",
                detail: format!("after {} failed writes (nothing is in the file) the directory holds {names:?}: the size criterion closed {victim_name:?} although it holds no more than the limit", i + 1),
            });
        }
    }
    h.stop();
    drop(h);
    env.leave();
    Ok(reported)
}

fn run_cur_full_unit(idx: usize, unit: usize, out: &mut Out) {
    let naming = NG[idx];
    let case = json!({"unit": unit, "cur_full": idx});
    let cause = format!("current-file-on-full-device/{}", naming.short());
    let mut vs = Vec::new();
    for _ in 0..2 {
        out.evaluations += 1;
        out.transitions += 6;
        match run_isolated(Duration::from_secs(30), move || run_cur_full(naming)) {
            Ran::Done(Ok(n)) => {
                out.outcome(format!("current file full: error lines={}", n.min(9)));
                break;
            }
            Ran::Done(Err(f)) => vs.push(Violation::new(f.clause, cause.clone(), format!("naming {naming:?}, direct mode, size limit {LIMIT}, six records of 20 bytes; the first file the logger opens is a symlink to /dev/full\n  {}", f.detail), case.clone())),
            Ran::Panicked(m) => vs.push(Violation::new("panic", cause.clone(), m, case.clone())),
            Ran::Hung => vs.push(Violation::new("hang", cause.clone(), String::new(), case.clone())),
        }
    }
    out.state(&(unit, "cur_full"));
    out.nontrivial(&(unit, "cur_full"));
    if vs.len() == 2 && vs[0].key() == vs[1].key() {
        out.violation(vs.remove(0));
    } else if !vs.is_empty() {
        out.violation(Violation::new("nondeterministic", "replay-diverged", vs[0].detail.clone(), case));
    }
}

// ---------------------------------------------------------------- failing duplicate stream

/// File logging with duplication to stderr / stdout while that stream is a full device for part
/// of the history (every write to it really fails with ENOSPC).
fn dup_cases() -> Vec<(i32, ModeK, Option<NamingK>)> {
    let mut v = Vec::new();
    for fd in [2, 1] {
        for mode in [ModeK::Direct, ModeK::BufDont(16)] {
            for rot in [None, Some(NamingK::Numbers)] {
                v.push((fd, mode, rot));
            }
        }
    }
    v
}

fn run_dup(fd: i32, mode: ModeK, rot: Option<NamingK>) -> Result<usize, Fail> {
    use crate::capture::FdCapture;
    let env = Env::new("c19d");
    env.enter();
    let mut cfg = match rot {
        Some(n) => Cfg::rot(CritK::Size(LIMIT), n, CleanK::Never),
        None => Cfg::norot(),
    };
    cfg.mode = mode;
    // (a second FileLogWriter gets every record, too: what the duplicate stream does must not
    // keep anything from it either)
    let second_dir = env.root.path().join("second");
    let second = flexi_logger::writers::FileLogWriter::builder(flexi_logger::FileSpec::default().directory(&second_dir).basename("second").suppress_timestamp())
        .format(crate::lg::payload_format)
        .try_build()
        .map_err(|e| Fail {
            clause: "run-error",
            detail: format!("build second writer: {e}"),
        })?;
    let lb = cfg.logger(&env.dir, &env.err).log_to_file_and_writer(cfg.parts.file_spec(&env.dir), Box::new(second));
    let lb = if fd == 2 { lb.duplicate_to_stderr(flexi_logger::Duplicate::All) } else { lb.duplicate_to_stdout(flexi_logger::Duplicate::All) };
    let (logger, handle) = lb.build().map_err(|e| Fail {
        clause: "run-error",
        detail: format!("build: {e}"),
    })?;
    let mut accepted: Vec<u8> = Vec::new();
    let mut seq = 0;
    let mut w = |n: usize, accepted: &mut Vec<u8>| {
        for _ in 0..n {
            let msg = crate::lg::payload(0, seq, 9);
            seq += 1;
            accepted.extend(msg.as_bytes());
            accepted.push(b'\n');
            crate::lg::log_info(&*logger, &msg);
        }
    };
    let cap_path = env.root.path().join("dup.txt");
    // phase 1: the stream works
    let cap = FdCapture::start(fd, cap_path.clone());
    w(2, &mut accepted);
    if let Some(c) = cap {
        c.finish();
    }
    // phase 2: the stream is a full device
    let errs_before = env.errlines().len();
    let full = FdCapture::start(fd, std::path::PathBuf::from("/dev/full"));
    w(3, &mut accepted);
    if let Some(c) = full {
        c.restore();
    }
    let errs_during = env.errlines().len() - errs_before;
    // phase 3: the stream works again
    let cap = FdCapture::start(fd, cap_path);
    let from = accepted.len();
    w(2, &mut accepted);
    let dup_after = cap.map(FdCapture::finish).unwrap_or_default();
    handle.shutdown();
    drop(logger);
    env.leave();
    let scan = family::scan(&env.dir, &cfg.parts, None, cfg.naming(), &[]);
    let stream = scan.stream(&env.dir).map_err(|e| Fail {
        clause: "run-error",
        detail: e,
    })?;
    if stream != accepted {
        return Err(Fail {
            clause: "unrelated-record-lost",
            detail: format!("writing the duplicates failed (stream is a full device), the log files must hold every record exactly once:\n   files hold {:?}\n   logged     {:?}", String::from_utf8_lossy(&stream), String::from_utf8_lossy(&accepted)),
        });
    }
    let second_content = std::fs::read(second_dir.join("second.log")).unwrap_or_default();
    if second_content != accepted {
        return Err(Fail {
            clause: "unrelated-record-lost",
            detail: format!("writing the duplicates failed (stream is a full device), the second writer of log_to_file_and_writer must hold every record exactly once:\n   its file holds {:?}\n   logged         {:?}", String::from_utf8_lossy(&second_content), String::from_utf8_lossy(&accepted)),
        });
    }
    if errs_during == 0 {
        return Err(Fail {
            clause: "not-reported",
            detail: "three duplicates could not be written (ENOSPC) but nothing was written to the error channel".into(),
        });
    }
    // recovery: the duplicates of the records logged after the stream works again are there,
    // intact and in order (stdout is line-buffered by std and may deliver older lines late)
    let want = String::from_utf8_lossy(&accepted[from..]).to_string();
    let got = String::from_utf8_lossy(&dup_after).to_string();
    let mut pos = 0;
    for l in want.lines() {
        match got[pos..].find(&format!("{l}\n")) {
            Some(p) => pos += p + l.len() + 1,
            None => {
                return Err(Fail {
                    clause: "no-recovery",
                    detail: format!("after the stream works again the duplicate of {l:?} is missing: the stream received {got:?}"),
                })
            }
        }
    }
    Ok(errs_during)
}

fn run_dup_unit(idx: usize, unit: usize, out: &mut Out) {
    let (fd, mode, rot) = dup_cases()[idx];
    let case = json!({"unit": unit, "dup": idx});
    let cause = format!("duplicate-stream-full/{}/{}/{}", if fd == 2 { "stderr" } else { "stdout" }, super::c08::mode_class(mode), rot.map_or("no-rotation", NamingK::short));
    let mut keys = Vec::new();
    for _ in 0..2 {
        out.evaluations += 1;
        out.transitions += 7;
        let v = match run_isolated(Duration::from_secs(30), move || run_dup(fd, mode, rot)) {
            Ran::Done(Ok(n)) => {
                out.outcome(format!("duplicate stream full: error lines={}", n.min(3)));
                None
            }
            Ran::Done(Err(f)) => Some(Violation::new(f.clause, cause.clone(), format!("file logging with duplication to fd {fd}, mode {mode:?}, rotation {rot:?}; history W W [fd -> /dev/full] W W W [fd restored] W W\n  {}", f.detail), case.clone())),
            Ran::Panicked(m) => Some(Violation::new("panic", cause.clone(), m, case.clone())),
            Ran::Hung => Some(Violation::new("hang", cause.clone(), String::new(), case.clone())),
        };
        match v {
            None => break,
            Some(v) => keys.push(v),
        }
    }
    out.state(&(unit, "dup"));
    out.nontrivial(&(unit, "dup"));
    if keys.len() == 2 {
        if keys[0].key() == keys[1].key() {
            out.violation(keys.remove(0));
        } else {
            out.violation(Violation::new("nondeterministic", "replay-diverged", keys[0].detail.clone(), case));
        }
    } else if keys.len() == 1 {
        out.violation(Violation::new("nondeterministic", "replay-diverged", keys[0].detail.clone(), case));
    }
}
fn bounds(tier: &str) -> Value {
    json!({"configurations": grid().len(), "history": format!("{:?}", word()), "bursts": [1, 2, 3, "until cleared"], "second_order": tier != "quick", "failing_duplicate_stream_cases": dup_cases().len(), "no_file_descriptor_cases": fd_cases().len(), "system_call_level_fault_points": crate::hooks::shim_available()})
}

#[derive(Debug)]
struct RunObs {
    /// per operation: (sites of the faults injected during the op, error lines added during the
    /// op, result ok)
    ops: Vec<(Vec<&'static str>, usize, bool)>,
    injected: Vec<(&'static str, usize)>,
    trace: Vec<(&'static str, usize)>,
    /// system-call notifications of the subject (call class), in order
    sys_trace: Vec<&'static str>,
    /// the faults of this run were placed at system calls (not at hook sites)
    sys_faults: bool,
    /// directory after each operation (for replay output)
    dirs: Vec<Vec<String>>,
    lines: Vec<Vec<u8>>,
    exempt: BTreeSet<usize>,
    found: Vec<String>,
    /// lines per file, in age order
    groups: Vec<Vec<String>>,
    /// after each operation: number of distinct file names seen so far (counts rotations)
    names_seen: Vec<usize>,
    names: Vec<String>,
    plain: usize,
    gz: usize,
    errlines: Vec<String>,
    /// names of the compressed files seen during the run, in order of appearance
    gz_seen: Vec<String>,
    dev_full_hit: bool,
}

fn run(c: &Case, faults: &[FaultSpec], dev_full: Option<&str>) -> Result<RunObs, String> {
    let env = if c.cfg.bg_cleanup { Env::in_current("c19") } else { Env::new("c19") };
    env.enter();
    // the victim becomes a symlink to /dev/full at the moment the logger is about to create it
    // (planting it earlier would make the collision-free naming choose another name)
    let planted = std::sync::Arc::new(std::sync::atomic::AtomicBool::new(false));
    if let Some(n) = dev_full {
        let (n, planted) = (n.to_string(), std::sync::Arc::clone(&planted));
        env.ctx.fs.lock().unwrap().on_hit = Some(Box::new(move |site, _occ, _idx, path| {
            if site == "gz_create" && path.file_name().is_some_and(|f| f.to_string_lossy() == n) && !planted.swap(true, std::sync::atomic::Ordering::SeqCst) {
                std::os::unix::fs::symlink("/dev/full", path).ok();
            }
        }));
    }
    let mut h = Hist::new(&env, c.cfg.clone());
    if c.prior_run {
        for op in [HOp::W(20), HOp::W(20), HOp::W(20)] {
            h.apply(op).map_err(|e| format!("prior run: {e:?}"))?;
        }
        h.stop();
        env.clock.advance_secs(1);
    }
    let first_line = h.accepted.len();
    // (the logger is built before any fault is armed: a failing build() is an Err for the caller,
    // not a matter of this property; the file writer initialises with the first record)
    h.start().map_err(|e| format!("build failed: {e:?}"))?;
    {
        let mut g = env.ctx.fs.lock().unwrap();
        g.enabled = true;
        g.faults = faults.to_vec();
        if crate::hooks::shim_available() && !c.cfg.bg_cleanup {
            g.sys_dir = Some(env.dir.clone());
        }
    }
    let mut ops = Vec::new();
    let mut seen: BTreeSet<String> = BTreeSet::new();
    let mut names_seen = Vec::new();
    let mut dirs: Vec<Vec<String>> = Vec::new();
    let mut exempt = BTreeSet::new();
    let mut gz_seen: Vec<String> = Vec::new();
    let mut initialised = false;
    let mut all: Vec<HOp> = word();
    let n_word = all.len();
    all.extend(recovery());
    for (i, op) in all.iter().enumerate() {
        if i == n_word {
            // faults are over
            env.ctx.fs.lock().unwrap().faults.clear();
            if let Some(n) = dev_full {
                let p = env.dir.join(n);
                if std::fs::symlink_metadata(&p).is_ok_and(|m| m.file_type().is_symlink()) {
                    std::fs::remove_file(&p).ok();
                }
            }
        }
        let inj_before = env.ctx.fs.lock().unwrap().injected.len();
        let err_before = env.errlines().len();
        let line_idx = h.accepted.len();
        // (system-call points are the subject's: armed for the operation only)
        env.ctx.fs.lock().unwrap().sys_armed = true;
        let r = h.apply(*op);
        env.ctx.fs.lock().unwrap().sys_armed = false;
        let inj_after = env.ctx.fs.lock().unwrap().injected.clone();
        let during: Vec<(&'static str, usize)> = inj_after[inj_before..].to_vec();
        let err_after = env.errlines().len();
        if let crate::fl::StepErr::Build(e) = r.as_ref().err().unwrap_or(&crate::fl::StepErr::Op(String::new())) {
            return Err(format!("build failed: {e}"));
        }
        if matches!(op, HOp::W(_)) {
            // which records may legitimately be missing: their own write failed, or the logger
            // was not initialised yet and a fault hit the initialisation
            // (a failing step of the start-up *cleanup* is not among them: the file is open)
            if during.iter().any(|(s, _)| *s == "write") || (!initialised && during.iter().any(|(s, _)| matches!(*s, "open" | "rename" | "reopen" | "list"))) {
                exempt.insert(line_idx);
            }
            if during.is_empty() {
                initialised = true;
            }
        }
        ops.push((during.iter().map(|d| d.0).collect(), err_after - err_before, r.is_ok()));
        for n in family::list_names(&env.dir) {
            if n.ends_with(".gz") && !gz_seen.contains(&n) {
                gz_seen.push(n.clone());
            }
            seen.insert(n.strip_suffix(".gz").unwrap_or(&n).to_string());
        }
        names_seen.push(seen.len());
        dirs.push(family::list_names(&env.dir));
    }
    let (injected, trace, sys_trace) = {
        let mut g = env.ctx.fs.lock().unwrap();
        g.enabled = false;
        (g.injected.clone(), g.trace.iter().map(|(s, o, _)| (*s, *o)).collect::<Vec<_>>(), g.sys_trace.iter().map(|(o, _)| *o).collect::<Vec<_>>())
    };
    let lines = h.accepted.clone();
    h.stop();
    drop(h);
    env.leave();
    let scan = family::scan(&env.dir, &c.cfg.parts, None, c.cfg.naming(), &[]);
    if !scan.foreign.is_empty() || !scan.other.is_empty() {
        return Err(format!("files outside the family: {:?} {:?}", scan.foreign, scan.other));
    }
    let plain_logicals: Vec<String> = scan.members.iter().filter(|m| !m.gz).map(|m| m.logical.clone()).collect();
    let mut stream = Vec::new();
    let (mut plain, mut gz) = (0, 0);
    let mut names = Vec::new();
    let mut groups = Vec::new();
    for m in &scan.members {
        if m.gz && plain_logicals.contains(&m.logical) {
            continue; // a compression that failed half way leaves a partial .gz next to the original
        }
        let content = family::read_file(&env.dir.join(&m.name))?;
        groups.push(family::split_lines(&content, c.cfg.ending()).0);
        stream.extend(content);
        names.push(m.name.clone());
        if m.gz {
            gz += 1;
        } else if m.role == Role::Rotated || c.cfg.naming().is_some_and(NamingK::direct) {
            plain += 1;
        }
    }
    let (found, rest) = family::split_lines(&stream, c.cfg.ending());
    if !rest.is_empty() {
        return Err(format!("unterminated data: {:?}", String::from_utf8_lossy(&rest)));
    }
    let _ = first_line;
    Ok(RunObs {
        ops,
        injected,
        trace,
        sys_trace,
        sys_faults: faults.iter().any(|f| f.site.starts_with("sys:")),
        dirs,
        lines,
        exempt,
        found,
        groups,
        names_seen,
        names,
        plain,
        gz,
        errlines: env.errlines(),
        gz_seen,
        dev_full_hit: planted.load(std::sync::atomic::Ordering::SeqCst),
    })
}

struct Fail {
    clause: &'static str,
    detail: String,
}

type Reference = (Vec<Vec<String>>, Vec<usize>);
fn judge_obs(c: &Case, o: &RunObs, reference: Option<&Reference>) -> Result<(), Fail> {
    // faults that hit only cleanup / compression steps must not disturb how records are
    // partitioned into files (the writing path is not involved)
    if let Some(r) = reference {
        let only_cleanup = !o.injected.is_empty() && o.injected.iter().all(|(s, _)| s.starts_with("gz_") || matches!(*s, "cleanup_remove" | "list" | "symlink"));
        // (a fault during initialisation makes the logger initialise again with the next record,
        // which legitimately rotates once more: those runs have an exempt record)
        if only_cleanup && o.exempt.is_empty() {
            // (a removal that fails during the start-up cleanup leaves an old file in sight that
            // the fault-free run never shows: compare where the count grows, not the count)
            let growth = |v: &Vec<usize>| -> Vec<usize> { v.iter().map(|x| x - v.first().copied().unwrap_or(0)).collect() };
            if growth(&o.names_seen) != growth(&r.1) {
                return Err(Fail {
                    clause: "partition-disturbed",
                    detail: format!("faults {:?} hit only cleanup steps, but files are opened at other operations than in the fault-free run: files seen after each operation {:?}, fault-free {:?}", o.injected, o.names_seen, r.1),
                });
            }
            let a: Vec<&Vec<String>> = o.groups.iter().filter(|g| !g.is_empty()).collect();
            let b: Vec<&Vec<String>> = r.0.iter().filter(|g| !g.is_empty()).collect();
            let n = a.len().min(b.len());
            if a[a.len() - n..] != b[b.len() - n..] {
                return Err(Fail {
                    clause: "partition-disturbed",
                    detail: format!("faults {:?} hit only cleanup steps, but the records are partitioned into files differently from the fault-free run:\n   with faults: {:?}\n   fault-free : {:?}", o.injected, o.groups, r.0),
                });
            }
        }
    }
    let ending = c.cfg.ending();
    let all_ops: Vec<HOp> = word().into_iter().chain(recovery()).collect();
    if c.dev_full && o.dev_full_hit && o.errlines.is_empty() {
        return Err(Fail {
            clause: "not-reported",
            detail: "the compressed file could not be written (device full: every write fails with ENOSPC) but nothing was written to the error channel".into(),
        });
    }
    // (3) every failure on the logging path is reported during the call it happened in
    for (i, (sites, errs, ok)) in o.ops.iter().enumerate() {
        let inj = sites.len();
        if inj > 0 {
            // a failing flush neither keeps a record from being written nor a rotation from
            // completing (the data stays in the buffer): it need not be reported
            // (nor does a directory listing that fails: the code treats it as an empty directory)
            let only_flush = sites.iter().all(|s| matches!(*s, "flush" | "list"));
            let reported = *errs > 0 || !*ok;
            // (reopen_output tries a second way when its first open fails: a single failing call
            // that the operation overcame kept nothing from being done)
            let overcome = o.sys_faults && *ok && matches!(all_ops[i], HOp::Reopen);
            if !reported && !only_flush && !overcome {
                return Err(Fail {
                    clause: "not-reported",
                    detail: format!("operation {i} ({:?}) hit {inj} injected fault(s) {:?} but neither wrote to the error channel nor returned an error", all_ops[i], o.injected),
                });
            }
        }
    }
    // (2) only records whose own write failed may be missing; everything else exactly once, in order
    let texts: Vec<String> = o.lines.iter().map(|l| String::from_utf8_lossy(&l[..l.len() - ending.len()]).to_string()).collect();
    let mut pos = 0usize; // index into texts
    let may_drop = c.cfg.rotation.and_then(|r| r.2.limits()).is_some_and(|(k, m)| k + m < 50);
    let mut first = true;
    for f in &o.found {
        let Some(rel) = texts[pos..].iter().position(|t| t == f) else {
            return Err(Fail {
                clause: "unrelated-record-lost",
                detail: format!("line {f:?} is duplicated, out of order or unknown; files {:?}\n   found {:?}\n   logged {:?} (exempt {:?})", o.names, o.found, texts, o.exempt),
            });
        };
        // records skipped between pos and pos+rel must be exempt (or a removable prefix)
        for missing in pos..pos + rel {
            let prefix_ok = first && may_drop;
            if !o.exempt.contains(&missing) && !prefix_ok {
                return Err(Fail {
                    clause: "unrelated-record-lost",
                    detail: format!("record {:?} is missing although its own write did not fail; faults {:?}; files {:?}\n   found {:?}\n   exempt {:?}", texts[missing], o.injected, o.names, o.found, o.exempt),
                });
            }
        }
        pos += rel + 1;
        first = false;
    }
    for missing in pos..texts.len() {
        if !o.exempt.contains(&missing) {
            return Err(Fail {
                clause: "unrelated-record-lost",
                detail: format!("record {:?} (near the end) is missing although its own write did not fail; faults {:?}; files {:?}\n   found {:?}", texts[missing], o.injected, o.names, o.found),
            });
        }
    }
    // (5) "all other guarantees hold": the size criterion. A record may be appended to a file that
    // already exceeds the limit only by an operation whose rotation attempt hit a fault (it
    // retries with the next record); every other such record is one too many
    if matches!(c.cfg.rotation, Some((CritK::Size(_), _, _))) {
        let mut excess = 0usize;
        for g in &o.groups {
            let mut cum = 0u64;
            for t in g {
                if cum > LIMIT {
                    excess += 1;
                }
                cum += (t.len() + ending.len()) as u64;
            }
        }
        let tolerated = o.ops.iter().filter(|(sites, _, _)| !sites.is_empty()).count() + o.exempt.len();
        if excess > tolerated {
            return Err(Fail {
                clause: "appended-beyond-limit",
                detail: format!("{excess} records were appended to files that already exceeded the size limit {LIMIT}, but only {tolerated} operation(s) hit a fault (a failed rotation is retried with the next record): files {:?}; faults {:?}", o.groups, o.injected),
            });
        }
    }
    // (4) recovery: after the faults cleared and more rotations/cleanups ran, the limits hold
    if let Some((k, m)) = c.cfg.rotation.and_then(|r| r.2.limits()) {
        let kk = if c.cfg.naming().is_some_and(NamingK::direct) { k.max(1) } else { k };
        if o.plain > kk || o.gz > m {
            return Err(Fail {
                clause: "no-recovery",
                detail: format!("after the faults cleared and three more rotations: {} plain / {} compressed files, limits {k}/{m}: {:?}; faults {:?}", o.plain, o.gz, o.names, o.injected),
            });
        }
    }
    // the recovery records themselves must be there
    let last = texts.last().cloned().unwrap_or_default();
    if o.found.last() != Some(&last) {
        return Err(Fail {
            clause: "no-recovery",
            detail: format!("the last record logged after the faults cleared is not the last line: found {:?}", o.found),
        });
    }
    Ok(())
}

fn occ_class(c: &Case, site: &str, occ: usize) -> &'static str {
    let _ = c;
    match (site, occ) {
        ("open" | "rename", 0) => "first/at-init",
        ("write", 0) => "first",
        ("write", _) => "later",
        ("open" | "rename", _) => "during-rotation",
        _ => "during-cleanup",
    }
}

fn cause(c: &Case, f: &[FaultSpec]) -> String {
    let s = &f[0];
    if s.site.starts_with("sys:") {
        return format!("{}/{}/{}/{}{}", s.site, if s.burst > 3 { "until-cleared".to_string() } else { format!("burst{}", s.burst) }, c.cfg.naming().map_or("none", NamingK::short), super::c08::mode_class(c.cfg.mode), if c.prior_run { "/after-an-earlier-run" } else { "" });
    }
    format!(
        "{}/{}/burst{}/{}/{}{}{}",
        s.site,
        occ_class(c, &s.site, s.first_occ),
        s.burst,
        c.cfg.naming().map_or("none", NamingK::short),
        super::c08::mode_class(c.cfg.mode),
        if c.cfg.bg_cleanup { "/background-cleanup" } else { "" },
        if f.len() > 1 { "/second-order" } else { "" }
    )
}

/// Background-cleanup configurations run under the scheduler with the canonical schedule "the
/// thread that registered last runs first": the cleanup thread does its work as soon as it is
/// asked to, so fault placements and the per-operation attribution are deterministic.
fn exec(c: &Case, faults: &[FaultSpec], dev_full: Option<String>) -> Ran<Result<RunObs, String>> {
    let cc = c.clone();
    let ff = faults.to_vec();
    if !c.cfg.bg_cleanup {
        return run_isolated(Duration::from_secs(30), move || run(&cc, &ff, dev_full.as_deref()));
    }
    let cfg = crate::sched::SchedCfg {
        ignore: vec!["flw_pool_pop", "flw_pool_push", "set_max_level", "write", "flush", "open", "rename", "reopen", "cleanup_list", "cleanup_remove", "gz_create", "gz_open", "gz_copy", "gz_finish", "gz_remove", "symlink_remove", "symlink_create"],
        eager_others: true,
        ..crate::sched::SchedCfg::default()
    };
    let body: std::sync::Arc<dyn Fn(&std::sync::Arc<crate::sched::Sched>) -> Result<RunObs, String> + Send + Sync> = std::sync::Arc::new(move |_s| run(&cc, &ff, dev_full.as_deref()));
    let ex = crate::sched::run_once(&cfg, &[], Some(crate::hooks::VClock::new(crate::hooks::base_instant())), body);
    if ex.stalled {
        return Ran::Done(Err("MACHINERY: scheduled execution stalled".into()));
    }
    match (ex.abort, ex.obs) {
        (Some(crate::sched::Abort::Deadlock(d)), _) => Ran::Done(Err(format!("deadlock: {d}"))),
        (Some(crate::sched::Abort::Diverged(d)), _) => Ran::Done(Err(format!("MACHINERY: {d}"))),
        (None, Some(o)) => Ran::Done(o),
        (None, None) => Ran::Done(Err("MACHINERY: no observation".into())),
    }
}

fn judge(c: &Case, faults: &[FaultSpec], unit: usize, reference: Option<&Reference>) -> (Option<Violation>, Option<RunObs>) {
    judge_df(c, faults, None, unit, reference)
}

fn judge_df(c: &Case, faults: &[FaultSpec], dev_full: Option<String>, unit: usize, reference: Option<&Reference>) -> (Option<Violation>, Option<RunObs>) {
    let case = json!({"unit": unit, "dev_full": dev_full, "faults": faults.iter().map(|f| json!([f.site, f.first_occ, f.burst])).collect::<Vec<_>>()});
    let descr = format!("cfg={:?} prior_run={}\n  faults(site, first occurrence, burst)={:?}{}", c.cfg, c.prior_run, faults.iter().map(|f| (f.site.clone(), f.first_occ, f.burst)).collect::<Vec<_>>(), dev_full.as_ref().map_or(String::new(), |n| format!("\n  {n} is a symlink to /dev/full during the history")));
    let df_cause = dev_full.as_ref().map(|_| format!("dev-full-gz/{}/{}", c.cfg.naming().map_or("none", NamingK::short), super::c08::mode_class(c.cfg.mode)));
    let r = exec(c, faults, dev_full);
    if let Ran::Done(Err(e)) = &r {
        if e.starts_with("MACHINERY") {
            return (Some(Violation::new("machinery", "scheduler", format!("{descr}\n  {e}"), case)), None);
        }
    }
    let faults_empty = faults.is_empty() && df_cause.is_none();
    let cause = |c: &Case, f: &[FaultSpec]| df_cause.clone().unwrap_or_else(|| cause(c, f));
    let faults_is_empty = faults_empty;
    match r {
        Ran::Done(Ok(o)) => match judge_obs(c, &o, reference) {
            Ok(()) => (None, Some(o)),
            Err(f) => (Some(Violation::new(f.clause, if faults_is_empty { "fault-free".into() } else { cause(c, faults) }, format!("{descr}\n  {}\n  error channel: {:?}", f.detail, o.errlines.iter().take(4).collect::<Vec<_>>()), case)), Some(o)),
        },
        Ran::Done(Err(e)) => (Some(Violation::new("run-error", if faults_is_empty { "fault-free".into() } else { cause(c, faults) }, format!("{descr}\n  {e}"), case)), None),
        Ran::Panicked(m) => (Some(Violation::new("panic", if faults_is_empty { "fault-free".into() } else { cause(c, faults) }, format!("{descr}\n  panic: {m}"), case)), None),
        Ran::Hung => (Some(Violation::new("hang", if faults_is_empty { "fault-free".into() } else { cause(c, faults) }, descr, case)), None),
    }
}

fn run_unit(tier: &str, unit: usize, out: &mut Out) {
    let g = grid();
    if unit >= g.len() + dup_cases().len() + NG.len() + dir_cases().len() + RENAME_DIR_UNITS + fd_cases().len() {
        run_extra_unit(unit - g.len() - dup_cases().len() - NG.len() - dir_cases().len() - RENAME_DIR_UNITS - fd_cases().len(), unit, out);
        return;
    }
    if unit >= g.len() + dup_cases().len() + NG.len() + dir_cases().len() + RENAME_DIR_UNITS {
        run_fd_unit(unit - g.len() - dup_cases().len() - NG.len() - dir_cases().len() - RENAME_DIR_UNITS, unit, out);
        return;
    }
    if unit >= g.len() + dup_cases().len() + NG.len() + dir_cases().len() {
        run_rename_dir_unit(unit - g.len() - dup_cases().len() - NG.len() - dir_cases().len(), unit, out);
        return;
    }
    if unit >= g.len() + dup_cases().len() + NG.len() {
        run_dir_unit(unit - g.len() - dup_cases().len() - NG.len(), unit, out);
        return;
    }
    if unit >= g.len() + dup_cases().len() {
        run_cur_full_unit(unit - g.len() - dup_cases().len(), unit, out);
        return;
    }
    if unit >= g.len() {
        run_dup_unit(unit - g.len(), unit, out);
        return;
    }
    let c = &g[unit];
    // fault-free reference run: records the trace
    let (v, o) = judge(c, &[], unit, None);
    out.evaluations += 1;
    if let Some(v) = v {
        out.violation(v);
        return;
    }
    let Some(o) = o else { return };
    if c.dev_full {
        out.count("dev_full_targets", o.gz_seen.len().min(3) as u64);
        for n in o.gz_seen.iter().take(3) {
            let (v, o2) = judge_df(c, &[], Some(n.clone()), unit, None);
            out.evaluations += 1;
            out.transitions += 1;
            out.state(&(unit, n));
            out.nontrivial(&(unit, n));
            if let Some(o2) = &o2 {
                out.outcome(format!("dev-full: error lines={}", o2.errlines.len().min(3)));
            }
            if let Some(v) = v {
                let (v2, _) = judge_df(c, &[], Some(n.clone()), unit, None);
                match v2 {
                    Some(v2) if v2.key() == v.key() => out.violation(v),
                    _ => out.violation(Violation::new("nondeterministic", "replay-diverged", v.detail.clone(), v.case.clone())),
                }
            }
        }
        return;
    }
    let reference: Reference = (o.groups.clone(), o.names_seen.clone());
    let mut pairs: Vec<(&'static str, usize)> = Vec::new();
    for (s, occ) in &o.trace {
        if INJECTABLE.contains(s) && !pairs.contains(&(*s, *occ)) {
            pairs.push((*s, *occ));
        }
    }
    out.count("trace_points", o.trace.len() as u64);
    let mut placements: Vec<Vec<FaultSpec>> = Vec::new();
    for (s, occ) in &pairs {
        // (1000: the call keeps failing until the faults are cleared before the recovery records)
        for burst in [1, 2, 3, 1000] {
            placements.push(vec![FaultSpec {
                site: (*s).to_string(),
                first_occ: *occ,
                burst,
            }]);
        }
    }
    // fault placements at system-call granularity (interposition shim): every libc call of the
    // subject that changes the directory tree or lists the directory fails once (and, thorough, in a
    // burst of two and until the faults are cleared), whether or not a guarded hook sits in front of it
    if c.cfg.mode == ModeK::Direct || tier != "quick" {
        out.count("system_call_points", o.sys_trace.len() as u64);
        for (n, op) in o.sys_trace.iter().enumerate() {
            // (a failing directory listing is placed by the descriptor scenarios only, see DESIGN)
            for burst in if tier == "quick" { vec![1] } else { vec![1, 2, 1000] } {
                placements.push(vec![FaultSpec {
                    site: (*op).to_string(),
                    first_occ: n,
                    burst,
                }]);
            }
        }
    }
    if tier != "quick" || (!c.prior_run && c.cfg.mode == ModeK::Direct) {
        for (i, a) in pairs.iter().enumerate() {
            for b in pairs.iter().skip(i + 1) {
                if a.0 != b.0 {
                    placements.push(vec![
                        FaultSpec {
                            site: a.0.to_string(),
                            first_occ: a.1,
                            burst: 1,
                        },
                        FaultSpec {
                            site: b.0.to_string(),
                            first_occ: b.1,
                            burst: 1,
                        },
                    ]);
                }
            }
        }
    }
    for f in placements {
        let (v, o) = judge(c, &f, unit, Some(&reference));
        out.evaluations += 1;
        out.transitions += 1;
        out.state(&(unit, f.iter().map(|x| (x.site.clone(), x.first_occ, x.burst)).collect::<Vec<_>>()));
        if f[0].site != "write" {
            out.nontrivial(&(unit, f.iter().map(|x| (x.site.clone(), x.first_occ, x.burst)).collect::<Vec<_>>()));
        }
        if let Some(o) = &o {
            out.outcome(format!("{}: injected={} exempt={}", f[0].site, o.injected.len().min(3), o.exempt.len().min(3)));
            if out.samples.len() < 3 && o.injected.len() >= 2 && f[0].site != "write" {
                out.sample(json!({"cfg": format!("{:?}", c.cfg.rotation), "mode": format!("{:?}", c.cfg.mode), "faults(site,first_occ,burst)": f.iter().map(|x| json!([x.site, x.first_occ, x.burst])).collect::<Vec<_>>(), "injected": format!("{:?}", o.injected), "error_channel_lines": o.errlines.len(), "files_after": o.names}));
            }
        }
        if let Some(v) = v {
            let (v2, _) = judge(c, &f, unit, Some(&reference));
            match v2 {
                Some(v2) if v2.key() == v.key() => out.violation(v),
                _ => out.violation(Violation::new("nondeterministic", "replay-diverged", v.detail.clone(), v.case.clone())),
            }
        }
    }
}

fn replay(case: &Value) -> Vec<Violation> {
    let g = grid();
    let unit = case["unit"].as_u64().unwrap_or(0) as usize;
    if let Some(idx) = case["extra"].as_u64() {
        let mut out = Out::default();
        println!("replay C19: extra scenario {idx} (0 = nested records on a full device, 1.. = symlink path blocked {:?})", link_cases().get((idx as usize).wrapping_sub(1)));
        run_extra_unit(idx as usize, unit, &mut out);
        return out.violations;
    }
    if let Some(idx) = case["fd_exhausted"].as_u64() {
        let mut out = Out::default();
        println!("replay C19: no file descriptor available, case {:?}", fd_cases().get(idx as usize));
        run_fd_unit(idx as usize, unit, &mut out);
        return out.violations;
    }
    if let Some(idx) = case["rename_dir"].as_u64() {
        let mut out = Out::default();
        println!("replay C19: the rename target is a directory, case {idx}");
        run_rename_dir_unit(idx as usize, unit, &mut out);
        return out.violations;
    }
    if let Some(idx) = case["dir_removed"].as_u64() {
        let mut out = Out::default();
        println!("replay C19: log directory removed, case {:?}", dir_cases().get(idx as usize));
        run_dir_unit(idx as usize, unit, &mut out);
        return out.violations;
    }
    if let Some(idx) = case["cur_full"].as_u64() {
        let mut out = Out::default();
        println!("replay C19: current file on a full device, naming {:?}", NG.get(idx as usize));
        run_cur_full_unit(idx as usize, unit, &mut out);
        return out.violations;
    }
    if let Some(idx) = case["dup"].as_u64() {
        let mut out = Out::default();
        println!("replay C19: failing duplicate stream, case {:?}", dup_cases().get(idx as usize));
        run_dup_unit(idx as usize, unit, &mut out);
        return out.violations;
    }
    let Some(c) = g.get(unit) else { return vec![] };
    let faults: Vec<FaultSpec> = case["faults"]
        .as_array()
        .into_iter()
        .flatten()
        .map(|f| FaultSpec {
            site: f[0].as_str().unwrap_or("").to_string(),
            first_occ: f[1].as_u64().unwrap_or(0) as usize,
            burst: f[2].as_u64().unwrap_or(1) as usize,
        })
        .collect();
    println!("replay C19: cfg={:?} prior_run={} faults={faults:?} dev_full={:?}", c.cfg, c.prior_run, case["dev_full"]);
    if let Some(n) = case["dev_full"].as_str() {
        let (v, o) = judge_df(c, &[], Some(n.to_string()), unit, None);
        if let Some(o) = o {
            println!("  files: {:?}\n  lines: {:?}\n  error channel: {:?}", o.names, o.found, o.errlines);
        }
        return v.into_iter().collect();
    }
    let reference: Option<Reference> = judge(c, &[], unit, None).1.map(|o| (o.groups, o.names_seen));
    let (v, o) = judge(c, &faults, unit, reference.as_ref());
    if let Some(o) = o {
        println!("  per op (injected, error lines, ok): {:?}\n  files: {:?}\n  lines: {:?}\n  groups: {:?}\n  system calls: {:?}", o.ops, o.names, o.found, o.groups, o.sys_trace);
        for (i, d) in o.dirs.iter().enumerate() {
            println!("  directory after operation {i}: {d:?}");
        }
    }
    v.into_iter().collect()
}
