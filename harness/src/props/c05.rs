//! C05 — run-time specification changes take full effect; push/pop is an exact stack.
//!
//! All words over the five reconfiguration operations (with well-formed and malformed
//! arguments) up to a depth bound, executed on a real `Logger` with a recording writer; after
//! every operation the observable filtering (enabled-grid, delivered records, global max
//! level, result kind) must equal the prediction of a reference stack machine.
use super::{all_workers, default_cap, Prop};
use crate::lg;
use crate::rec::Recorder;
use crate::report::{Meta, Out, Violation};
use crate::specref::{RefSpec, LEVELS};
use crate::{run_isolated, Ran};
use flexi_logger::{LogSpecification, Logger};
use log::{LevelFilter, Log};
use serde_json::{json, Value};
use std::time::Duration;

pub fn prop() -> Prop {
    Prop {
        id: "C05",
        meta,
        units,
        run_unit,
        replay,
        bounds,
        wall_cap_s: default_cap,
        max_workers: all_workers,
    }
}

fn meta() -> Meta {
    Meta {
        id: "C05",
        level: "model_checking",
        rule: "every word over {set_new_spec(s), parse_new_spec(t), push_temp_spec(s), parse_and_push_temp_spec(t), pop_temp_spec} with 5 well-formed specifications (distinct max levels, two differing only in the text filter, one with three nesting levels whose innermost entry repeats the default level) and 3 malformed texts, up to the depth bound; the implementation state after each operation is compared with a reference stack machine; states = distinct (active spec, saved stack) model states reached; non-trivial = word contains a push and a later pop, or a malformed argument; plus one word of 24 nested pushes (with rejected malformed pushes in between) and their pops; RUST_LOG is set to another specification throughout",
        assumptions: vec![
            "one handle (the stack is per handle clone by design)".into(),
            "probe grid: 5 levels x 6 targets x 2 messages".into(),
        ],
    }
}

fn specs() -> Vec<RefSpec> {
    let m = |d: Option<LevelFilter>, ms: &[(&str, LevelFilter)], r: Option<&str>| RefSpec {
        default: d,
        modules: ms.iter().map(|(n, l)| ((*n).to_string(), *l)).collect(),
        regex: r.map(String::from),
    };
    vec![
        m(None, &[], None),                                                              // off
        // (three nesting levels, the innermost repeats the default: info, a=debug, a::b=info)
        m(Some(LevelFilter::Info), &[("a", LevelFilter::Debug), ("a::b", LevelFilter::Info)], None),
        m(None, &[("a", LevelFilter::Trace)], None),                                     // a=trace
        m(Some(LevelFilter::Warn), &[("a::b", LevelFilter::Debug)], Some("x")),          // warn,a::b=debug/x
        m(Some(LevelFilter::Info), &[], Some("x")),                                      // info/x
    ]
}
const MALFORMED: [&str; 3] = ["a=b=c", "info,a=wrong", "x/y/z"];
const INITIAL: usize = 5; // index of the initial spec in `all_specs`

fn all_specs() -> Vec<RefSpec> {
    let mut v = specs();
    v.push(RefSpec {
        default: Some(LevelFilter::Error),
        modules: vec![("b".into(), LevelFilter::Info)],
        regex: None,
    });
    v
}

#[derive(Clone, Copy, Debug, PartialEq, Eq)]
enum Op {
    Set(usize),
    Parse(usize),
    ParseBad(usize),
    Push(usize),
    ParsePush(usize),
    ParsePushBad(usize),
    Pop,
}

fn alphabet() -> Vec<Op> {
    let n = specs().len();
    let mut v = vec![Op::Pop];
    for i in 0..n {
        v.push(Op::Set(i));
    }
    for i in 0..n {
        v.push(Op::Push(i));
    }
    for i in 0..n {
        v.push(Op::Parse(i));
    }
    for i in 0..n {
        v.push(Op::ParsePush(i));
    }
    for i in 0..MALFORMED.len() {
        v.push(Op::ParseBad(i));
    }
    for i in 0..MALFORMED.len() {
        v.push(Op::ParsePushBad(i));
    }
    v
}

fn depth(tier: &str) -> usize {
    if tier == "quick" {
        4
    } else {
        5
    }
}

// unit = first two letters of the word (or shorter words for unit 0)
fn units(_tier: &str) -> usize {
    let k = alphabet().len();
    1 + k * k
}
fn bounds(tier: &str) -> Value {
    json!({"depth": depth(tier), "alphabet_size": alphabet().len(), "words": crate::word_count(alphabet().len(), depth(tier))})
}

const TARGETS: [&str; 6] = ["a", "a::b", "a::b::c", "ab", "b", ""];
const MSGS: [&str; 2] = ["x", "q"];

/// Compares the implementation with the reference spec `r`; returns a description of the first
/// difference.
fn probe(logger: &dyn Log, rec: &Recorder, r: &RefSpec) -> Option<(String, String)> {
    for t in TARGETS {
        for l in LEVELS {
            let want = r.enabled(l, t);
            let got = logger.enabled(&log::Metadata::builder().level(l).target(t).build());
            if want != got {
                return Some((
                    "grid!=model".into(),
                    format!("enabled({l},{t:?}) = {got}, reference says {want} for spec `{}`", r.text()),
                ));
            }
            for m in MSGS {
                rec.take();
                lg::log_to(logger, l, t, m);
                let delivered = rec.take().len();
                let wantd = usize::from(r.passes(l, t, m));
                if delivered != wantd {
                    return Some((
                        "grid!=model".into(),
                        format!("log({l},{t:?},{m:?}) delivered {delivered} record(s), reference says {wantd} for spec `{}`", r.text()),
                    ));
                }
            }
            if want && l > log::max_level() {
                return Some((
                    "gate-below-spec".into(),
                    format!("spec `{}` enables ({l},{t:?}) but log::max_level() is {}", r.text(), log::max_level()),
                ));
            }
        }
    }
    None
}

struct Fail {
    clause: String,
    at: usize,
    detail: String,
    depth: usize,
}

fn run_word(word: &[Op]) -> Result<(Vec<(usize, Vec<usize>)>, bool), Fail> {
    let all = all_specs();
    let rec = Recorder::new(LevelFilter::Trace);
    let (logger, mut handle) = Logger::with(all[INITIAL].build())
        .log_to_writer(Box::new(rec.clone()))
        .error_channel(flexi_logger::ErrorChannel::DevNull)
        .build()
        .map_err(|e| Fail {
            clause: "build".into(),
            at: 0,
            detail: e.to_string(),
            depth: 0,
        })?;
    let mut active = INITIAL;
    let mut stack: Vec<usize> = Vec::new();
    let mut trace = vec![(active, stack.clone())];
    let mut popped_after_push = false;
    if let Some((c, d)) = probe(&*logger, &rec, &all[active]) {
        return Err(Fail {
            clause: c,
            at: 0,
            detail: format!("initially: {d}"),
            depth: 0,
        });
    }
    for (i, op) in word.iter().enumerate() {
        let (res_ok, want_ok) = match *op {
            Op::Set(s) => {
                handle.set_new_spec(all[s].build());
                active = s;
                (true, true)
            }
            Op::Push(s) => {
                handle.push_temp_spec(all[s].build());
                stack.push(active);
                active = s;
                (true, true)
            }
            Op::Parse(s) => {
                let r = handle.parse_new_spec(&all[s].text());
                active = s;
                (r.is_ok(), true)
            }
            Op::ParsePush(s) => {
                let r = handle.parse_and_push_temp_spec(all[s].text());
                stack.push(active);
                active = s;
                (r.is_ok(), true)
            }
            Op::ParseBad(b) => (handle.parse_new_spec(MALFORMED[b]).is_ok(), false),
            Op::ParsePushBad(b) => (handle.parse_and_push_temp_spec(MALFORMED[b]).is_ok(), false),
            Op::Pop => {
                handle.pop_temp_spec();
                if let Some(p) = stack.pop() {
                    active = p;
                    popped_after_push = true;
                }
                (true, true)
            }
        };
        if res_ok != want_ok {
            return Err(Fail {
                clause: "result-kind".into(),
                at: i,
                detail: format!("op {i} {op:?} returned ok={res_ok}, expected ok={want_ok}"),
                depth: stack.len(),
            });
        }
        if let Some((c, d)) = probe(&*logger, &rec, &all[active]) {
            return Err(Fail {
                clause: c,
                at: i,
                detail: format!("after op {i} {op:?} (model: active=`{}`, stack depth {}): {d}", all[active].text(), stack.len()),
                depth: stack.len(),
            });
        }
        trace.push((active, stack.clone()));
    }
    // drain the stack: every remaining pop must restore the model's entry, extra pops are no-ops
    for extra in 0..stack.len() + 1 {
        handle.pop_temp_spec();
        if let Some(p) = stack.pop() {
            active = p;
        }
        if let Some((c, d)) = probe(&*logger, &rec, &all[active]) {
            return Err(Fail {
                clause: c,
                at: word.len(),
                detail: format!("after final pop #{extra} (model: active=`{}`): {d}", all[active].text()),
                depth: stack.len(),
            });
        }
    }
    drop(handle);
    drop(logger);
    Ok((trace, popped_after_push))
}

fn op_class(op: Op) -> &'static str {
    match op {
        Op::Set(_) => "set",
        Op::Parse(_) => "parse",
        Op::ParseBad(0) => "parse(malformed-part)",
        Op::ParseBad(1) => "parse(malformed-salvage)",
        Op::ParseBad(_) => "parse(malformed-structure)",
        Op::Push(_) => "push",
        Op::ParsePush(_) => "parse_push",
        Op::ParsePushBad(0) => "parse_push(malformed-part)",
        Op::ParsePushBad(1) => "parse_push(malformed-salvage)",
        Op::ParsePushBad(_) => "parse_push(malformed-structure)",
        Op::Pop => "pop",
    }
}

fn judge(word: &[Op], widx: &[usize], tier: &str) -> (Option<Violation>, Option<(Vec<(usize, Vec<usize>)>, bool)>) {
    let ww = word.to_vec();
    let case = json!({"tier": tier, "word": widx, "ops": format!("{word:?}")});
    match run_isolated(Duration::from_secs(20), move || run_word(&ww)) {
        Ran::Done(Ok(t)) => (None, Some(t)),
        Ran::Done(Err(f)) => {
            // cause: the operation at which model and implementation diverge, and the most
            // recent "interesting" earlier operation
            let at = word.get(f.at).map_or("final-pop", |o| op_class(*o));
            let prev = word[..f.at.min(word.len())]
                .iter()
                .rev()
                .map(|o| op_class(*o))
                .find(|c| c.contains("malformed") || c.contains("push"))
                .unwrap_or("-");
            (
                Some(Violation::new(
                    &f.clause,
                    format!("{at}/after:{prev}/depth{}", f.depth.min(2)),
                    format!("word={word:?}\n  {}", f.detail),
                    case,
                )),
                None,
            )
        }
        Ran::Panicked(m) => (Some(Violation::new("panic", "panic", format!("word={word:?}: {m}"), case)), None),
        Ran::Hung => (Some(Violation::new("hang", "hang", format!("word={word:?}"), case)), None),
    }
}

/// A nesting far beyond the depth bound of the word enumeration: 24 pushes (alternating
/// push_temp_spec / parse_and_push_temp_spec over the well-formed specifications, a rejected
/// malformed push at every third level), then the pops - judged after every step like every
/// other word.
fn deep_word() -> Vec<Op> {
    let mut w = Vec::new();
    for i in 0..24 {
        w.push(if i % 2 == 0 { Op::Push(i % 5) } else { Op::ParsePush(i % 5) });
        if i % 3 == 2 {
            w.push(Op::ParsePushBad(i % 3));
        }
    }
    for _ in 0..24 {
        w.push(Op::Pop);
    }
    w
}

fn run_unit(tier: &str, unit: usize, out: &mut Out) {
    // the run-time changes take their argument, never the environment
    std::env::set_var("RUST_LOG", "error");
    if unit == 0 {
        let alpha = alphabet();
        let word = deep_word();
        let widx: Vec<usize> = word.iter().filter_map(|o| alpha.iter().position(|a| a == o)).collect();
        out.evaluations += 1;
        out.transitions += word.len() as u64;
        out.count("deep_nesting_words", 1);
        if widx.len() == word.len() {
            if let (Some(v), _) = judge(&word, &widx, tier) {
                out.violation(v);
            }
        }
    }
    let alpha = alphabet();
    let k = alpha.len();
    let d = depth(tier);
    let run = |w: &[usize], out: &mut Out| {
        let word: Vec<Op> = w.iter().map(|i| alpha[*i]).collect();
        let (v, t) = judge(&word, w, tier);
        out.evaluations += 1;
        out.traces_validated += 1;
        out.transitions += word.len() as u64;
        if let Some((trace, popped)) = t {
            for s in &trace {
                out.state(s);
            }
            let bad = word.iter().any(|o| matches!(o, Op::ParseBad(_) | Op::ParsePushBad(_)));
            if popped || bad {
                out.nontrivial(w);
            }
            out.outcome(format!("final-depth={}", trace.last().map_or(0, |s| s.1.len())));
            if w.len() == d && popped && bad && out.samples.len() < 3 {
                out.sample(json!({"word": format!("{word:?}"), "model_trace(active,stack)": format!("{trace:?}")}));
            }
        }
        if let Some(v) = v {
            let (v2, _) = judge(&word, w, tier);
            match v2 {
                Some(v2) if v2.key() == v.key() => out.violation(v),
                _ => out.violation(Violation::new("nondeterministic", "replay-diverged", v.detail.clone(), v.case.clone())),
            }
        }
    };
    if unit == 0 {
        // words of length 0 and 1
        crate::for_each_word(k, 1.min(d), |w| run(w, out));
        return;
    }
    if d < 2 {
        return;
    }
    let p = unit - 1;
    let prefix = [p / k, p % k];
    crate::for_each_word(k, d - 2, |rest| {
        let mut w = prefix.to_vec();
        w.extend_from_slice(rest);
        run(&w, out);
    });
    out.max("max_depth_completed", d as u64);
}

fn replay(case: &Value) -> Vec<Violation> {
    let alpha = alphabet();
    let w: Vec<usize> = case["word"]
        .as_array()
        .into_iter()
        .flatten()
        .filter_map(|x| x.as_u64().map(|n| n as usize))
        .collect();
    let word: Vec<Op> = w.iter().filter_map(|i| alpha.get(*i).copied()).collect();
    println!("replay C05: word={word:?}");
    let (v, _) = judge(&word, &w, case["tier"].as_str().unwrap_or("quick"));
    v.into_iter().collect()
}

#[allow(dead_code)]
fn _unused(_: LogSpecification) {}
