//! C08 — size criterion: rotate exactly when the current file already exceeds the limit.
//!
//! Enumerates all sequences of line lengths (around the limit) for a grid of limits, write
//! modes, naming schemes, start states and line endings, runs each through the real logger and
//! compares the resulting partition into files with the reference
//! `cur := start; for each line { if cur > N { new file; cur := 0 }; cur += len }`.
use super::{all_workers, default_cap, Prop};
use crate::env::Env;
use crate::family;
use crate::lg::{self, AgeK, Cfg, CleanK, CritK, ModeK, NamingK, NG};
use crate::report::{Meta, Out, Violation};
use crate::{for_each_word, run_isolated, Ran};
use serde_json::{json, Value};
use std::time::Duration;

pub fn prop() -> Prop {
    Prop {
        id: "C08",
        meta,
        units,
        run_unit,
        replay,
        bounds,
        wall_cap_s: default_cap,
        max_workers: all_workers,
    }
}

fn meta() -> Meta {
    Meta {
        id: "C08",
        level: "model_checking",
        rule: "every sequence of line lengths up to the depth bound over {1,2,N-1,N,N+1,3N} for every configuration of the grid (limit N x write mode x naming x start state x criterion x line ending), executed on the real logger; a case is non-trivial when at least one rotation is predicted or observed; distinct = distinct (configuration, word)",
        assumptions: vec![
            "virtual clock frozen (age part of AgeOrSize inactive)".into(),
            "limits N in {0,1,10,25}; buffer capacities N-1,N,4N; async pool/message capacities {1,4},{2,64}".into(),
            "file contents judged after shutdown()".into(),
        ],
    }
}

#[derive(Clone, Debug)]
struct Case {
    n: u64,
    mode: ModeK,
    naming: NamingK,
    /// None = fresh start (no append); Some(s) = append onto a current file of s bytes
    start: Option<u64>,
    age_or_size: bool,
    crlf: bool,
}

fn modes(n: u64) -> Vec<ModeK> {
    let mut v = vec![ModeK::Direct];
    for c in [n.saturating_sub(1), n, 4 * n] {
        let m = ModeK::BufDont(c as usize);
        if !v.contains(&m) {
            v.push(m);
        }
    }
    v.push(ModeK::Async(1, 4, 0));
    v.push(ModeK::Async(2, 64, 0));
    v
}

fn starts(n: u64) -> Vec<Option<u64>> {
    let mut v = vec![None];
    for s in [0, n.saturating_sub(1), n, n + 1, 2 * n] {
        if !v.contains(&Some(s)) {
            v.push(Some(s));
        }
    }
    v
}

fn grid(tier: &str) -> Vec<(Case, usize)> {
    // (case, depth)
    let mut g = Vec::new();
    for n in [0u64, 1, 10, 25] {
        for mode in modes(n) {
            for naming in NG {
                for start in starts(n) {
                    for age_or_size in [false, true] {
                        for crlf in [false, true] {
                            let c = Case {
                                n,
                                mode,
                                naming,
                                start,
                                age_or_size,
                                crlf,
                            };
                            let core = matches!(naming, NamingK::Numbers | NamingK::TimestampsDirect)
                                && !crlf;
                            let depth = match tier {
                                "quick" => {
                                    if core && !age_or_size {
                                        4
                                    } else {
                                        3
                                    }
                                }
                                _ => {
                                    if core {
                                        6
                                    } else {
                                        5
                                    }
                                }
                            };
                            g.push((c, depth));
                        }
                    }
                }
            }
        }
    }
    g
}

fn lengths(c: &Case) -> Vec<u64> {
    let e = if c.crlf { 2 } else { 1 };
    let mut v = Vec::new();
    for l in [1, 2, c.n.saturating_sub(1), c.n, c.n + 1, 3 * c.n] {
        if l >= e && !v.contains(&l) {
            v.push(l);
        }
    }
    v.sort_unstable();
    v
}

fn units(tier: &str) -> usize {
    grid(tier).len()
}

fn bounds(tier: &str) -> Value {
    let g = grid(tier);
    json!({
        "configurations": g.len(),
        "max_depth": g.iter().map(|x| x.1).max(),
        "min_depth": g.iter().map(|x| x.1).min(),
        "limits": [0, 1, 10, 25],
    })
}

fn cfg_of(c: &Case) -> Cfg {
    let crit = if c.age_or_size {
        CritK::AgeOrSize(AgeK::Day, c.n)
    } else {
        CritK::Size(c.n)
    };
    let mut cfg = Cfg::rot(crit, c.naming, CleanK::Never);
    cfg.mode = c.mode;
    cfg.append = c.start.is_some();
    cfg.crlf = c.crlf;
    cfg
}

/// Name of the file an appending logger continues with.
pub fn seeded_current_name(naming: NamingK) -> String {
    match naming {
        NamingK::Numbers | NamingK::Timestamps => "app_rCURRENT.log".into(),
        NamingK::CustomCur => format!("app_{}.log", lg::CUSTOM_CUR),
        NamingK::NumbersDirect => "app_r00000.log".into(),
        NamingK::TimestampsDirect | NamingK::CustomDirect => "app_r2024-05-15_12-00-00.log".into(),
        NamingK::CoarseDirect => "app_d2024-05-15.log".into(),
        NamingK::DayFirstDirect => "app_r15-05-2024_12-30-10.log".into(),
    }
}

fn seed_content(size: u64, ending: &str) -> Vec<u8> {
    // whole lines where possible, so that the file looks like a log file
    let mut v = vec![b's'; size as usize];
    let e = ending.as_bytes();
    if v.len() >= e.len() {
        let l = v.len();
        v[l - e.len()..].copy_from_slice(e);
    }
    v
}

/// Runs one word; returns (observed file contents in age order, predicted contents, rotations predicted).
fn run_word(c: &Case, lens: &[u64]) -> Result<(Vec<Vec<u8>>, Vec<Vec<u8>>, usize), String> {
    let cfg = cfg_of(c);
    let env = Env::new("c08");
    let ending = cfg.ending();
    let mut predicted: Vec<Vec<u8>> = Vec::new();
    let mut cur: u64 = 0;
    if let Some(s) = c.start {
        let content = seed_content(s, ending);
        let p = env.dir.join(seeded_current_name(c.naming));
        std::fs::write(&p, &content).map_err(|e| e.to_string())?;
        env.clock
            .set_created(&p, crate::hooks::ts(2024, 5, 15, 12, 0, 0));
        predicted.push(content);
        cur = s;
    }
    env.enter();
    let (logger, handle) = cfg.build_logger(&env.dir, &env.err).map_err(|e| format!("build: {e}"))?;
    let mut rotations = 0;
    for (seq, l) in lens.iter().enumerate() {
        let msg = lg::payload(0, seq, (*l as usize) - ending.len());
        let line = format!("{msg}{ending}").into_bytes();
        if predicted.is_empty() {
            predicted.push(Vec::new());
        } else if cur > c.n {
            predicted.push(Vec::new());
            cur = 0;
            rotations += 1;
        }
        cur += line.len() as u64;
        predicted.last_mut().unwrap().extend(line);
        lg::log_info(&*logger, &msg);
        env.observe();
    }
    handle.shutdown();
    drop(logger);
    drop(handle);
    env.leave();
    let scan = family::scan(&env.dir, &cfg.parts, None, cfg.naming(), &[]);
    if !scan.foreign.is_empty() || !scan.other.is_empty() {
        return Err(format!("unexpected files: {:?} {:?}", scan.foreign, scan.other));
    }
    let observed: Vec<Vec<u8>> = scan
        .contents(&env.dir)?
        .into_iter()
        .map(|(_, b)| b)
        .collect();
    let errs = env.errlines();
    if !errs.is_empty() {
        return Err(format!("error channel: {errs:?}"));
    }
    Ok((observed, predicted, rotations))
}

fn sizes(v: &[Vec<u8>]) -> Vec<usize> {
    v.iter().map(Vec::len).collect()
}

fn judge(c: &Case, lens: &[u64], unit: usize, tier: &str) -> (Option<Violation>, usize, Vec<usize>) {
    let cc = c.clone();
    let ll = lens.to_vec();
    let case = json!({"tier": tier, "unit": unit, "lens": lens, "cfg": format!("{c:?}")});
    match run_isolated(Duration::from_secs(20), move || run_word(&cc, &ll)) {
        Ran::Done(Ok((obs, pred, rot))) => {
            let so = sizes(&obs);
            if obs == pred {
                (None, rot, so)
            } else {
                let sp = sizes(&pred);
                let dir = if so.len() > sp.len() {
                    "early-close"
                } else if so.len() < sp.len() {
                    "late-close"
                } else {
                    "content"
                };
                let start = match c.start {
                    None => "fresh".to_string(),
                    Some(s) => format!("append{}", cmp_class(s, c.n)),
                };
                let mode = mode_class(c.mode);
                (
                    Some(Violation::new(
                        "partition!=predicted",
                        format!("{dir}/{start}/{mode}"),
                        format!("cfg={c:?} lens={lens:?} observed sizes={so:?} predicted sizes={sp:?}"),
                        case,
                    )),
                    rot,
                    so,
                )
            }
        }
        Ran::Done(Err(e)) => (
            Some(Violation::new("run-error", mode_class(c.mode), format!("cfg={c:?} lens={lens:?}: {e}"), case)),
            0,
            vec![],
        ),
        Ran::Panicked(m) => (
            Some(Violation::new("panic", mode_class(c.mode), format!("cfg={c:?} lens={lens:?}: {m}"), case)),
            0,
            vec![],
        ),
        Ran::Hung => (
            Some(Violation::new("hang", mode_class(c.mode), format!("cfg={c:?} lens={lens:?}"), case)),
            0,
            vec![],
        ),
    }
}

fn cmp_class(s: u64, n: u64) -> &'static str {
    if s > n {
        ">N"
    } else if s == n {
        "=N"
    } else {
        "<N"
    }
}
pub fn mode_class(m: ModeK) -> &'static str {
    match m {
        ModeK::Direct | ModeK::SupportCapture => "direct",
        ModeK::BufDont(_) | ModeK::BufFlush(..) => "buffered",
        ModeK::Async(..) | ModeK::AsyncDefault => "async",
    }
}

fn run_unit(tier: &str, unit: usize, out: &mut Out) {
    let g = grid(tier);
    let (c, depth) = &g[unit];
    let alphabet = lengths(c);
    for_each_word(alphabet.len(), *depth, |w| {
        let lens: Vec<u64> = w.iter().map(|i| alphabet[*i]).collect();
        let (v, rot, so) = judge(c, &lens, unit, tier);
        out.evaluations += 1;
        out.traces_validated += 1;
        out.transitions += lens.len() as u64 + 1;
        out.state(&(unit, &so, lens.len()));
        if rot > 0 || so.len() > 1 {
            out.nontrivial(&(unit, &lens));
        }
        out.outcome(format!("files={}", so.len()));
        if unit % 97 == 0 && lens.len() == *depth && w.iter().all(|i| *i + 2 == alphabet.len()) {
            out.sample(json!({"cfg": format!("{c:?}"), "line_lengths": lens, "file_sizes": so}));
        }
        if let Some(v) = v {
            // determinism check: the same case must fail the same way again
            let (v2, _, _) = judge(c, &lens, unit, tier);
            match v2 {
                Some(v2) if v2.key() == v.key() => out.violation(v),
                _ => out.violation(Violation::new(
                    "nondeterministic",
                    "replay-diverged",
                    format!("first: {} / second run differs", v.detail),
                    v.case.clone(),
                )),
            }
        }
    });
    out.max("max_depth_completed", *depth as u64);
}

fn replay(case: &Value) -> Vec<Violation> {
    let tier = case["tier"].as_str().unwrap_or("quick");
    let unit = case["unit"].as_u64().unwrap_or(0) as usize;
    let lens: Vec<u64> = case["lens"]
        .as_array()
        .into_iter()
        .flatten()
        .filter_map(Value::as_u64)
        .collect();
    let g = grid(tier);
    let Some((c, _)) = g.get(unit) else {
        return vec![];
    };
    println!("replay C08: cfg={c:?} lens={lens:?}");
    let (v, _, so) = judge(c, &lens, unit, tier);
    println!("observed file sizes in age order: {so:?}");
    v.into_iter().collect()
}
