//! Registry of property checks.
use crate::report::{Meta, Out, Violation};
use serde_json::Value;

pub mod c01;
pub mod c02;
pub mod c03;
pub mod c04;
pub mod c05;
pub mod c06;
pub mod c07;
pub mod c08;
pub mod c09;
pub mod c10;
pub mod c11;
pub mod c12;
pub mod c13;
pub mod c14;
pub mod c15;
pub mod c16;
pub mod c17;
pub mod c18;
pub mod c19;
pub mod c20;

pub struct Prop {
    pub id: &'static str,
    pub meta: fn() -> Meta,
    /// number of shardable units for the tier
    pub units: fn(&str) -> usize,
    pub run_unit: fn(&str, usize, &mut Out),
    pub replay: fn(&Value) -> Vec<Violation>,
    pub bounds: fn(&str) -> Value,
    pub wall_cap_s: fn(&str) -> u64,
    pub max_workers: fn(&str) -> usize,
}

pub fn default_cap(tier: &str) -> u64 {
    if tier == "quick" {
        240
    } else {
        3 * 3600
    }
}
pub fn all_workers(_tier: &str) -> usize {
    64
}

pub fn get(id: &str) -> Option<Prop> {
    match id {
        "C01" => Some(c01::prop()),
        "C02" => Some(c02::prop()),
        "C03" => Some(c03::prop()),
        "C04" => Some(c04::prop()),
        "C05" => Some(c05::prop()),
        "C06" => Some(c06::prop()),
        "C07" => Some(c07::prop()),
        "C08" => Some(c08::prop()),
        "C09" => Some(c09::prop()),
        "C10" => Some(c10::prop()),
        "C11" => Some(c11::prop()),
        "C12" => Some(c12::prop()),
        "C13" => Some(c13::prop()),
        "C14" => Some(c14::prop()),
        "C15" => Some(c15::prop()),
        "C16" => Some(c16::prop()),
        "C17" => Some(c17::prop()),
        "C18" => Some(c18::prop()),
        "C19" => Some(c19::prop()),
        "C20" => Some(c20::prop()),
        _ => None,
    }
}

/// Entry point for helper child processes (`fxv child <what> ...`).
pub fn child(args: &[String]) -> i32 {
    match args.first().map(String::as_str) {
        Some("c11") => c11::child(&args[1..]),
        Some("c20utc") => c20::child_utc(),
        Some("c10errchan") => c10::child_errchan(&args[1..]),
        _ => 2,
    }
}
