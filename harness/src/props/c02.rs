//! C02 — a record is written iff the active specification (and text filter) enables it; the
//! global max-level gate never hides an acceptable record; enabled() never denies a written one.
//!
//! Exhaustive enumeration of specifications (<= 3 module entries over a name alphabet with
//! prefixes of each other and a level word, all six filters, optional default, optional regex)
//! x construction paths x the full probe grid, on a real `Logger` with recording writers.
use super::{all_workers, default_cap, Prop};
use crate::lg;
use crate::rec::{RecFilter, Recorder};
use crate::report::{Meta, Out, Violation};
use crate::specref::{RefSpec, FILTERS, LEVELS};
use crate::{run_isolated, Ran};
use flexi_logger::{LogSpecification, Logger};
use log::{Level, LevelFilter, Log};
use serde_json::{json, Value};
use std::sync::{Arc, Mutex};
use std::time::Duration;

pub fn prop() -> Prop {
    Prop {
        id: "C02",
        meta,
        units,
        run_unit,
        replay,
        bounds,
        wall_cap_s: default_cap,
        max_workers: all_workers,
    }
}

fn meta() -> Meta {
    Meta {
        id: "C02",
        level: "exploration",
        rule: "every specification with <= 3 (quick: <= 2 plus a slice of 3) distinct module names from {a, a::b, a::bc, ab, b, error} x 6 level filters each x default in {absent, 6 filters} x regex in {none, x, ^y$}, built via parse(), LogSpecBuilder and From<LevelFilter>, probed with 10 targets x 5 levels x 4 messages (plus brace targets for the additional writer and both LogLineFilter behaviours); distinct_nontrivial = distinct specifications with at least one module entry whose decision differs from the default for some probe; with a text filter every probe is preceded by a record whose message panics after part of its text (caught)",
        assumptions: vec![
            "module names are non-empty and occur at most once per specification (as the property states)".into(),
            "one additional writer with ceiling Warn".into(),
        ],
    }
}

const NAMES: [&str; 6] = ["a", "a::b", "a::bc", "ab", "b", "error"];
const TARGETS: [&str; 10] = ["a", "a::b", "a::b::c", "a::bcd", "ab", "abc", "b", "c", "error", ""];
const MSGS: [&str; 4] = ["x", "y", "xy", ""];
const REGEXES: [Option<&str>; 3] = [None, Some("x"), Some("^y$")];

fn name_sets(max: usize) -> Vec<Vec<usize>> {
    let mut v = vec![vec![]];
    let n = NAMES.len();
    for a in 0..n {
        v.push(vec![a]);
    }
    if max >= 2 {
        for a in 0..n {
            for b in a + 1..n {
                v.push(vec![a, b]);
            }
        }
    }
    if max >= 3 {
        for a in 0..n {
            for b in a + 1..n {
                for c in b + 1..n {
                    v.push(vec![a, b, c]);
                }
            }
        }
    }
    v
}

// unit = (name set, default choice)
fn unit_list(_tier: &str) -> Vec<(Vec<usize>, usize)> {
    let mut u = Vec::new();
    for ns in name_sets(3) {
        for d in 0..7 {
            u.push((ns.clone(), d));
        }
    }
    u
}
fn units(tier: &str) -> usize {
    unit_list(tier).len()
}
fn bounds(tier: &str) -> Value {
    json!({"name_sets": name_sets(3).len(), "defaults": 7, "regexes": 3, "targets": TARGETS.len(), "levels": 5, "messages": MSGS.len(),
        "three_name_sets_level_combinations": if tier == "quick" { "levels of the third entry restricted to {off, info, trace}" } else { "all" }})
}

#[derive(Clone, Copy, Debug, PartialEq, Eq)]
enum Way {
    Parse,
    Builder,
    FromLevel,
    ParseFilterFwd,
    ParseFilterSwallow,
}

struct Fail {
    clause: &'static str,
    cause: String,
    detail: String,
}

fn target_class(r: &RefSpec, t: &str) -> &'static str {
    if t.is_empty() {
        return "empty";
    }
    if t.starts_with('{') {
        return "brace";
    }
    if r.modules.iter().any(|m| m.0 == t) {
        "exact"
    } else if r.modules.iter().any(|m| t.starts_with(&m.0)) {
        "extended"
    } else if r.modules.iter().any(|m| m.0.starts_with(t) || t.starts_with(m.0.split("::").next().unwrap_or(""))) {
        "sibling"
    } else {
        "unrelated"
    }
}

fn shape(r: &RefSpec) -> String {
    let mut lens: Vec<usize> = r.modules.iter().map(|m| m.0.len()).collect();
    lens.sort_unstable();
    format!(
        "names{}{}{}",
        r.modules.len(),
        if r.default.is_some() { "+default" } else { "" },
        if r.regex.is_some() { "+regex" } else { "" }
    )
}

fn check_spec(r: &RefSpec, way: Way) -> Result<bool, Fail> {
    let rec = Recorder::new(LevelFilter::Trace);
    let extra = Recorder::new(LevelFilter::Warn);
    let asked = Arc::new(Mutex::new(Vec::new()));
    let spec: LogSpecification = match way {
        Way::Parse | Way::ParseFilterFwd | Way::ParseFilterSwallow => {
            LogSpecification::parse(r.text()).map_err(|e| Fail {
                clause: "parse-error",
                cause: shape(r),
                detail: format!("parse({:?}) failed: {e}", r.text()),
            })?
        }
        Way::Builder => r.build(),
        Way::FromLevel => LogSpecification::from(r.default.unwrap_or(LevelFilter::Off)),
    };
    let mut lb = Logger::with(spec)
        .log_to_writer(Box::new(rec.clone()))
        .add_writer("W", Box::new(extra.clone()))
        .error_channel(flexi_logger::ErrorChannel::DevNull);
    match way {
        Way::ParseFilterFwd => {
            lb = lb.filter(Box::new(RecFilter {
                asked: Arc::clone(&asked),
                forward: true,
            }));
        }
        Way::ParseFilterSwallow => {
            lb = lb.filter(Box::new(RecFilter {
                asked: Arc::clone(&asked),
                forward: false,
            }));
        }
        _ => {}
    }
    let (logger, handle) = lb.build().map_err(|e| Fail {
        clause: "build-error",
        cause: shape(r),
        detail: e.to_string(),
    })?;
    let gate = log::max_level();
    let mut differs_from_default = false;
    // with a text filter: before every probe a record whose message panics after part of its
    // text (the panic is caught, as thread pools do) - what it leaves behind must not influence
    // how the next record of this thread is matched
    struct Bomb;
    impl std::fmt::Display for Bomb {
        fn fmt(&self, f: &mut std::fmt::Formatter<'_>) -> std::fmt::Result {
            write!(f, "x y ")?;
            std::panic::resume_unwind(Box::new("scenario: Display panics"));
        }
    }
    let bomb = |t: &str| {
        if r.regex.is_some() {
            let _ = std::panic::catch_unwind(std::panic::AssertUnwindSafe(|| {
                logger.log(&log::Record::builder().args(format_args!("{}", Bomb)).level(log::Level::Error).target(t).module_path(Some(t)).build());
            }));
        }
    };
    for t in TARGETS {
        for l in LEVELS {
            let want_enabled = r.enabled(l, t);
            if want_enabled != (l <= r.default.unwrap_or(LevelFilter::Off)) {
                differs_from_default = true;
            }
            // gate
            if want_enabled && l > gate {
                return Err(Fail {
                    clause: "gate-hides",
                    cause: format!("{}/{}/spec", shape(r), target_class(r, t)),
                    detail: format!("{way:?} spec `{}`: ({l},{t:?}) is enabled but log::max_level()={gate}", r.text()),
                });
            }
            let q = logger.enabled(&log::Metadata::builder().level(l).target(t).build());
            // the target decides, not the module path the record carries
            if !matches!(way, Way::ParseFilterFwd | Way::ParseFilterSwallow) {
                for module in [Some("a::b"), Some("c"), None] {
                    rec.take();
                    lg::log_with_module(&*logger, l, t, module, MSGS[0]);
                    let written = rec.take().len();
                    let want = r.passes(l, t, MSGS[0]);
                    if written != usize::from(want) {
                        return Err(Fail {
                            clause: "written!=ref",
                            cause: format!("{}/{}/module-path-differs", shape(r), target_class(r, t)),
                            detail: format!("{way:?} spec `{}`: log({l}, target {t:?}, module path {module:?}, {:?}) written {written}x, reference (by target) says {}", r.text(), MSGS[0], usize::from(want)),
                        });
                    }
                }
            }
            for m in MSGS {
                bomb(t);
                rec.take();
                extra.take();
                asked.lock().unwrap().clear();
                lg::log_to(&*logger, l, t, m);
                let written = rec.take().len();
                let want = r.passes(l, t, m);
                let (got, what) = match way {
                    Way::ParseFilterFwd | Way::ParseFilterSwallow => (asked.lock().unwrap().len(), "passed to the line filter"),
                    _ => (written, "written"),
                };
                if got != usize::from(want) {
                    return Err(Fail {
                        clause: "written!=ref",
                        cause: format!("{}/{}/{:?}", shape(r), target_class(r, t), way),
                        detail: format!("{way:?} spec `{}`: log({l},{t:?},{m:?}) {what} {got}x, reference says {}", r.text(), usize::from(want)),
                    });
                }
                match way {
                    Way::ParseFilterSwallow if written != 0 => {
                        return Err(Fail {
                            clause: "filter-bypassed",
                            cause: shape(r),
                            detail: format!("spec `{}`: record reached the writer although the line filter swallowed it", r.text()),
                        });
                    }
                    Way::ParseFilterFwd if written != usize::from(want) => {
                        return Err(Fail {
                            clause: "filter-bypassed",
                            cause: shape(r),
                            detail: format!("spec `{}`: forwarding filter: written {written}x, expected {}", r.text(), usize::from(want)),
                        });
                    }
                    _ => {}
                }
                if written > 0 && !q {
                    return Err(Fail {
                        clause: "enabled-false-but-written",
                        cause: format!("{}/{}/spec", shape(r), target_class(r, t)),
                        detail: format!("{way:?} spec `{}`: ({l},{t:?},{m:?}) was written but Log::enabled() says false", r.text()),
                    });
                }
            }
        }
    }
    // additional writer: brace target, ceiling Warn
    for l in LEVELS {
        let accepts = l <= Level::Warn;
        if accepts && l > gate {
            return Err(Fail {
                clause: "gate-hides",
                cause: format!("{}/brace/additional-writer", shape(r)),
                detail: format!("{way:?} spec `{}`: additional writer accepts {l} but log::max_level()={gate}", r.text()),
            });
        }
        for t in ["{W}", "{W,_Default}"] {
            extra.take();
            rec.take();
            lg::log_to(&*logger, l, t, "x");
            let w = extra.take().len();
            let q = logger.enabled(&log::Metadata::builder().level(l).target(t).build());
            if w > 0 && !q {
                let rel = if l == Level::Warn { "level==ceiling" } else { "level<ceiling" };
                return Err(Fail {
                    clause: "enabled-false-but-written",
                    cause: format!("brace/additional-writer/{rel}"),
                    detail: format!("{way:?} spec `{}`: ({l},{t:?}) was written to the additional writer (ceiling Warn) but Log::enabled() says false", r.text()),
                });
            }
        }
    }
    drop(handle);
    drop(logger);
    Ok(differs_from_default)
}

fn specs_of_unit(tier: &str, names: &[usize], dflt: usize) -> Vec<RefSpec> {
    let default = if dflt == 0 { None } else { Some(FILTERS[dflt - 1]) };
    let k = names.len();
    let mut v = Vec::new();
    let mut idx = vec![0usize; k];
    'outer: loop {
        let restricted = tier == "quick" && k == 3 && ![0usize, 3, 5].contains(&idx[2]);
        if !restricted {
            for rx in REGEXES {
                v.push(RefSpec {
                    default,
                    modules: names
                        .iter()
                        .zip(idx.iter())
                        .map(|(n, l)| (NAMES[*n].to_string(), FILTERS[*l]))
                        .collect(),
                    regex: rx.map(String::from),
                });
            }
        }
        let mut i = k;
        loop {
            if i == 0 {
                break 'outer;
            }
            i -= 1;
            idx[i] += 1;
            if idx[i] < FILTERS.len() {
                break;
            }
            idx[i] = 0;
        }
    }
    v
}

fn ways(r: &RefSpec) -> Vec<Way> {
    let mut w = vec![Way::Parse, Way::Builder];
    if r.modules.is_empty() && r.regex.is_none() {
        w.push(Way::FromLevel);
    }
    // line filter variants: for the regex-free specifications and one regex
    if r.regex.as_deref() != Some("^y$") {
        w.push(Way::ParseFilterFwd);
        w.push(Way::ParseFilterSwallow);
    }
    w
}

fn judge(r: &RefSpec, way: Way) -> (Option<Violation>, bool) {
    let rr = r.clone();
    let case = json!({"spec": {"default": r.default.map(|d| d.to_string()), "modules": r.modules.iter().map(|m| json!([m.0, m.1.to_string()])).collect::<Vec<_>>(), "regex": r.regex}, "way": format!("{way:?}")});
    match run_isolated(Duration::from_secs(30), move || check_spec(&rr, way)) {
        Ran::Done(Ok(nt)) => (None, nt),
        Ran::Done(Err(f)) => (Some(Violation::new(f.clause, f.cause, f.detail, case)), false),
        Ran::Panicked(m) => (Some(Violation::new("panic", shape(r), format!("spec `{}` {way:?}: {m}", r.text()), case)), false),
        Ran::Hung => (Some(Violation::new("hang", shape(r), format!("spec `{}` {way:?}", r.text()), case)), false),
    }
}

fn run_unit(tier: &str, unit: usize, out: &mut Out) {
    let ul = unit_list(tier);
    let (names, dflt) = &ul[unit];
    for r in specs_of_unit(tier, names, *dflt) {
        for way in ways(&r) {
            let (v, nt) = judge(&r, way);
            out.evaluations += (TARGETS.len() * LEVELS.len() * MSGS.len() + 10) as u64;
            out.count("logger_builds", 1);
            if nt {
                out.nontrivial(&r);
            }
            out.outcome(format!("{way:?}"));
            if let Some(v) = v {
                let (v2, _) = judge(&r, way);
                match v2 {
                    Some(v2) if v2.key() == v.key() => out.violation(v),
                    _ => out.violation(Violation::new("nondeterministic", "replay-diverged", v.detail.clone(), v.case.clone())),
                }
            }
        }
        if out.samples.len() < 3 && r.modules.len() == 3 && r.regex.is_some() {
            out.sample(json!({"spec": r.text(), "ways": format!("{:?}", ways(&r)), "probes": "10 targets x 5 levels x 4 messages + brace targets"}));
        }
    }
}

fn parse_filter(s: &str) -> LevelFilter {
    FILTERS
        .iter()
        .copied()
        .find(|f| f.to_string().eq_ignore_ascii_case(s))
        .unwrap_or(LevelFilter::Off)
}

fn replay(case: &Value) -> Vec<Violation> {
    let s = &case["spec"];
    let r = RefSpec {
        default: s["default"].as_str().map(parse_filter),
        modules: s["modules"]
            .as_array()
            .into_iter()
            .flatten()
            .map(|m| (m[0].as_str().unwrap_or("").to_string(), parse_filter(m[1].as_str().unwrap_or("off"))))
            .collect(),
        regex: s["regex"].as_str().map(String::from),
    };
    let way = match case["way"].as_str().unwrap_or("") {
        "Builder" => Way::Builder,
        "FromLevel" => Way::FromLevel,
        "ParseFilterFwd" => Way::ParseFilterFwd,
        "ParseFilterSwallow" => Way::ParseFilterSwallow,
        _ => Way::Parse,
    };
    println!("replay C02: spec `{}` via {way:?}", r.text());
    judge(&r, way).0.into_iter().collect()
}
