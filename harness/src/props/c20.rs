//! C20 — each record is framed as format output plus one line ending; formats are faithful;
//! all outputs of one record carry the same timestamp.
use super::{default_cap, Prop};
use crate::capture::FdCapture;
use crate::env::Env;
use crate::lg::{Cfg, ModeK};
use crate::rec::Recorder;
use crate::report::{Meta, Out, Violation};
use crate::{run_isolated, Ran};
use flexi_logger::{DeferredNow, Duplicate, ErrorChannel, FileSpec, FormatFunction, LogSpecification, Logger};
use log::kv::Value as KvValue;
use log::{Level, LevelFilter, Log, Record};
use serde_json::{json, Value};
use std::sync::Mutex;
use std::time::Duration;

pub fn prop() -> Prop {
    Prop {
        id: "C20",
        meta,
        units,
        run_unit,
        replay,
        bounds,
        wall_cap_s: default_cap,
        max_workers: |_| 64,
    }
}

fn meta() -> Meta {
    Meta {
        id: "C20",
        level: "exploration",
        rule: "every message of 2-3 (quick) / 2-4 (thorough) tokens over {quote, backslash, LF, CR, TAB, 0x01, 0x7f, e-acute, emoji, braces, colon, space, a} with all fields present, and 10 messages (empty, plain, two lines, quotes, backslash, control characters, non-ASCII, braces, JSON-like, 4 KiB) x module path / file / line present or absent (8) x key-values {none, one string, string+int} x 5 levels x 9 format functions (default, opt, detailed, with_thread, their coloured variants, json) x {LF, CRLF} x {Direct, BufferDontFlush(8), Async{1,8}}: framing against the same format function, fidelity against an independent re-rendering / JSON decoding; recursive logging (a Display that logs two inner records) for every format x ending x sync mode; single timestamp across file + additional writer + stderr + stdout under a clock that advances on every query; distinct_nontrivial = distinct (format, ending, mode, record) with a message that needs escaping or spans lines, or absent fields; recursive logging also with a rotation due at every write: every file consists of whole lines; a format function that fails after writing part of its output: the records around it are framed as usual; the failing-format unit also with async message capacities 64 and 4096",
        assumptions: vec![
            "virtual clock frozen for framing / fidelity, self-advancing (+1 s per query) for the single-timestamp clause".into(),
            "colour codes are removed with the pattern ESC [ digits ; ... m".into(),
        ],
    }
}

fn messages() -> Vec<String> {
    vec![
        String::new(),
        "a".into(),
        "two\nlines".into(),
        "say \"q\" and 'r'".into(),
        "back\\slash \\n".into(),
        "ctl\u{1}\tend".into(),
        "é€😀".into(),
        "{} {{}} {0}".into(),
        "{\"k\":1}".into(),
        "x".repeat(4096),
    ]
}

#[derive(Clone, Copy, Debug, PartialEq, Eq, Hash)]
enum Fmt {
    Default,
    Opt,
    Detailed,
    WithThread,
    CDefault,
    COpt,
    CDetailed,
    CWithThread,
    Json,
    /// a user-written format function that prints the message and nothing else (its output is
    /// empty for an empty message: the record is then exactly one line ending)
    MessageOnly,
}
const FMTS: [Fmt; 10] = [Fmt::Default, Fmt::Opt, Fmt::Detailed, Fmt::WithThread, Fmt::CDefault, Fmt::COpt, Fmt::CDetailed, Fmt::CWithThread, Fmt::Json, Fmt::MessageOnly];
impl Fmt {
    fn function(self) -> FormatFunction {
        match self {
            Self::Default => flexi_logger::default_format,
            Self::Opt => flexi_logger::opt_format,
            Self::Detailed => flexi_logger::detailed_format,
            Self::WithThread => flexi_logger::with_thread,
            Self::CDefault => flexi_logger::colored_default_format,
            Self::COpt => flexi_logger::colored_opt_format,
            Self::CDetailed => flexi_logger::colored_detailed_format,
            Self::CWithThread => flexi_logger::colored_with_thread,
            Self::Json => flexi_logger::json_format,
            Self::MessageOnly => crate::lg::payload_format,
        }
    }
    fn plain(self) -> Self {
        match self {
            Self::CDefault => Self::Default,
            Self::COpt => Self::Opt,
            Self::CDetailed => Self::Detailed,
            Self::CWithThread => Self::WithThread,
            x => x,
        }
    }
}
const MODES: [ModeK; 3] = [ModeK::Direct, ModeK::BufDont(8), ModeK::Async(1, 8, 0)];
const LEVELS: [Level; 5] = [Level::Error, Level::Warn, Level::Info, Level::Debug, Level::Trace];
const TS_FMT: &str = "%Y-%m-%d %H:%M:%S%.6f %:z";

#[derive(Clone, Debug)]
struct RecSpec {
    level: Level,
    msg: String,
    module: Option<&'static str>,
    file: Option<&'static str>,
    line: Option<u32>,
    kv: u8,
}

static THOROUGH: std::sync::atomic::AtomicBool = std::sync::atomic::AtomicBool::new(false);

/// Every string of 2..3 (quick) / 2..4 (thorough) tokens over characters that formats, JSON escaping
/// and line framing could trip over.
fn generated_messages() -> Vec<String> {
    const TOK: [&str; 14] = ["\"", "\\", "\n", "\r", "\t", "\u{1}", "\u{7f}", "é", "😀", "{", "}", ":", " ", "a"];
    let depth = if THOROUGH.load(std::sync::atomic::Ordering::Relaxed) { 4 } else { 3 };
    let mut v = Vec::new();
    crate::for_each_word(TOK.len(), depth, |w| {
        if w.len() >= 2 {
            v.push(w.iter().map(|i| TOK[*i]).collect::<String>());
        }
    });
    v
}

fn recspecs() -> Vec<RecSpec> {
    let all = THOROUGH.load(std::sync::atomic::Ordering::Relaxed);
    let mut v = Vec::new();
    for msg in generated_messages() {
        v.push(RecSpec {
            level: Level::Info,
            msg,
            module: Some("my_mod::sub"),
            file: Some("src/some file.rs"),
            line: Some(4711),
            kv: 0,
        });
    }
    for msg in messages() {
        for bits in 0..8u8 {
            for kv in 0..3u8 {
                for level in LEVELS {
                    // keep the product manageable: levels vary only with the full field set
                    // (the thorough tier takes the full product)
                    if !all && level != Level::Info && bits != 7 {
                        continue;
                    }
                    v.push(RecSpec {
                        level,
                        msg: msg.clone(),
                        module: if bits & 1 != 0 { Some("my_mod::sub") } else { None },
                        file: if bits & 2 != 0 { Some("src/some file.rs") } else { None },
                        line: if bits & 4 != 0 { Some(4711) } else { None },
                        kv,
                    });
                }
            }
        }
    }
    v
}

fn kvs(r: &RecSpec) -> Vec<(&'static str, KvValue<'static>)> {
    match r.kv {
        0 => vec![],
        1 => vec![("user", KvValue::from("a \"b\""))],
        _ => vec![("user", KvValue::from("joe")), ("n", KvValue::from(42))],
    }
}

fn with_record<R>(r: &RecSpec, target: &str, f: impl FnOnce(&Record) -> R) -> R {
    let kv = kvs(r);
    let msg = &r.msg;
    f(&Record::builder()
        .args(format_args!("{msg}"))
        .level(r.level)
        .target(target)
        .module_path(r.module)
        .file(r.file)
        .line(r.line)
        .key_values(&kv)
        .build())
}

fn strip_ansi(s: &str) -> String {
    regex::Regex::new("\x1b\\[[0-9;]*m").unwrap().replace_all(s, "").to_string()
}

/// Independent rendering of the documented line layouts.
fn reference_line(fmt: Fmt, r: &RecSpec, ts: &str, thread: &str) -> String {
    let module = r.module.unwrap_or("<unnamed>");
    let file = r.file.unwrap_or("<unnamed>");
    let line = r.line.unwrap_or(0);
    let kv = match r.kv {
        0 => String::new(),
        1 => "{user=\"a \\\"b\\\"\"} ".to_string(),
        _ => "{user=\"joe\", n=42} ".to_string(),
    };
    let (lvl, msg) = (r.level, &r.msg);
    match fmt.plain() {
        Fmt::Default => format!("{lvl} [{module}] {kv}{msg}"),
        Fmt::Opt => format!("[{ts}] {lvl} [{file}:{line}] {kv}{msg}"),
        Fmt::Detailed => format!("[{ts}] {lvl} [{module}] {file}:{line}: {kv}{msg}"),
        Fmt::WithThread => format!("[{ts}] T[{thread}] {lvl} [{file}:{line}] {kv}{msg}"),
        _ => String::new(),
    }
}

fn check_json(line: &str, r: &RecSpec, ts: &str, thread: &str) -> Result<(), String> {
    if line.contains('\n') || line.contains('\r') {
        return Err("the JSON line contains a raw line break".into());
    }
    let v: Value = serde_json::from_str(line).map_err(|e| format!("not valid JSON: {e}"))?;
    let o = v.as_object().ok_or("not a JSON object")?;
    let want = |k: &str, x: Value| -> Result<(), String> {
        if o.get(k) == Some(&x) {
            Ok(())
        } else {
            Err(format!("field {k}: {:?}, expected {x}", o.get(k)))
        }
    };
    want("level", json!(r.level.as_str()))?;
    want("timestamp", json!(ts))?;
    want("thread", json!(thread))?;
    want("text", json!(r.msg))?;
    match r.module {
        Some(m) => want("module_path", json!(m))?,
        None => {
            if o.contains_key("module_path") {
                return Err("module_path present although absent in the record".into());
            }
        }
    }
    match r.file {
        Some(f) => want("file", json!(f))?,
        None => {
            if o.contains_key("file") {
                return Err("file present although absent in the record".into());
            }
        }
    }
    match r.line {
        Some(l) => want("line", json!(l))?,
        None => {
            if o.contains_key("line") {
                return Err("line present although absent in the record".into());
            }
        }
    }
    match r.kv {
        0 => {
            if o.contains_key("kv") {
                return Err("kv present although the record has no key-values".into());
            }
        }
        1 => want("kv", json!({"user": "a \"b\""}))?,
        _ => want("kv", json!({"user": "joe", "n": 42}))?,
    }
    Ok(())
}

struct Fail {
    clause: String,
    cause: String,
    detail: String,
}

fn msg_class(m: &str) -> &'static str {
    if m.is_empty() {
        "empty"
    } else if m.contains('\n') {
        "multi-line"
    } else if m.len() > 1000 {
        "long"
    } else if m.contains('"') || m.contains('\\') {
        "quotes/backslash"
    } else if m.chars().any(|c| c.is_control()) {
        "control"
    } else if !m.is_ascii() {
        "non-ascii"
    } else if m.contains('{') {
        "braces"
    } else {
        "plain"
    }
}

fn framing_and_fidelity(fmt: Fmt, crlf: bool, mode: ModeK) -> Result<(u64, u64), Fail> {
    let env = Env::new("c20");
    let mut cfg = Cfg::norot();
    cfg.mode = mode;
    cfg.crlf = crlf;
    let ending = cfg.ending();
    env.enter();
    let ts = env.clock.peek().format(TS_FMT).to_string();
    let (logger, handle) = cfg.logger(&env.dir, &env.err).format(fmt.function()).build().map_err(|e| Fail {
        clause: "machinery".into(),
        cause: "build".into(),
        detail: e.to_string(),
    })?;
    let recs = recspecs();
    let mut expected: Vec<u8> = Vec::new();
    let mut rendered: Vec<String> = Vec::new();
    for r in &recs {
        with_record(r, "tgt", |rec| {
            logger.log(rec);
            let mut buf = Vec::new();
            (fmt.function())(&mut buf, &mut DeferredNow::new(), rec).ok();
            expected.extend(&buf);
            expected.extend(ending.as_bytes());
            rendered.push(String::from_utf8_lossy(&buf).to_string());
        });
    }
    handle.shutdown();
    drop(logger);
    drop(handle);
    env.leave();
    let got = std::fs::read(env.dir.join("app.log")).unwrap_or_default();
    let mclass = super::c08::mode_class(mode);
    if got != expected {
        // locate the first differing record
        let mut off = 0;
        let mut which = None;
        for (i, l) in rendered.iter().enumerate() {
            let e = [l.as_bytes(), ending.as_bytes()].concat();
            if got.len() < off + e.len() || got[off..off + e.len()] != e[..] {
                which = Some(i);
                break;
            }
            off += e.len();
        }
        let i = which.unwrap_or(recs.len() - 1);
        let r = &recs[i.min(recs.len() - 1)];
        let around = String::from_utf8_lossy(&got[off.min(got.len())..(off + 120).min(got.len())]).to_string();
        return Err(Fail {
            clause: "framing".into(),
            cause: format!("{fmt:?}/{}/{}/{mclass}", msg_class(&r.msg), if crlf { "crlf" } else { "lf" }),
            detail: format!("format {fmt:?} ending {ending:?} mode {mode:?}: record #{i} {r:?} is not framed as format output + one line ending; file at that position: {around:?}, expected {:?}", rendered.get(i)),
        });
    }
    // fidelity
    let thread = "fxv-scenario";
    let mut nontrivial = 0;
    for (r, line) in recs.iter().zip(rendered.iter()) {
        let absent = r.module.is_none() || r.file.is_none() || r.line.is_none();
        if absent || msg_class(&r.msg) != "plain" {
            nontrivial += 1;
        }
        let fields = format!("module:{} file:{} line:{} kv:{}", r.module.is_some(), r.file.is_some(), r.line.is_some(), r.kv);
        if fmt == Fmt::Json {
            if let Err(e) = check_json(line, r, &ts, thread) {
                return Err(Fail {
                    clause: "json-invalid".into(),
                    cause: format!("{}/{fields}", msg_class(&r.msg)),
                    detail: format!("record {r:?}: {e}\n   line: {line:?}"),
                });
            }
        } else {
            // fidelity as the statement puts it: level, location fields and the message verbatim.
            // (The exact layout - brackets, blanks - is not part of the property: the line must
            // END with the message text, and what precedes it must show the level, the location
            // fields this format function documents, the key-values and the timestamp.)
            let have = if fmt == fmt.plain() { line.clone() } else { strip_ansi(line) };
            let exact = reference_line(fmt, r, &ts, thread);
            let Some(head) = have.strip_suffix(r.msg.as_str()) else {
                return Err(Fail {
                    clause: format!("fidelity:{:?}", fmt),
                    cause: format!("{}/{fields}", msg_class(&r.msg)),
                    detail: format!("record {r:?}: the rendered line does not end with the message text verbatim\n   rendered : {have:?}\n   documented layout: {exact:?}"),
                });
            };
            let module = r.module.unwrap_or("<unnamed>");
            let fileline = format!("{}:{}", r.file.unwrap_or("<unnamed>"), r.line.unwrap_or(0));
            if fmt == Fmt::MessageOnly {
                if !head.is_empty() {
                    return Err(Fail {
                        clause: format!("fidelity:{:?}", fmt),
                        cause: format!("{}/{fields}", msg_class(&r.msg)),
                        detail: format!("record {r:?}: the format function prints the message only, the line is {have:?}"),
                    });
                }
                continue;
            }
            let mut needed: Vec<String> = vec![r.level.to_string()];
            match fmt.plain() {
                Fmt::Default => needed.push(module.to_string()),
                Fmt::Opt => needed.extend([fileline, ts.clone()]),
                Fmt::Detailed => needed.extend([module.to_string(), fileline, ts.clone()]),
                Fmt::WithThread => needed.extend([fileline, ts.clone(), thread.to_string()]),
                _ => {}
            }
            match r.kv {
                0 => {}
                1 => needed.push("user=\"a \\\"b\\\"\"".to_string()),
                _ => needed.extend(["user=\"joe\"".to_string(), "n=42".to_string()]),
            }
            if let Some(missing) = needed.iter().find(|n| !head.contains(n.as_str())) {
                return Err(Fail {
                    clause: format!("fidelity:{:?}", fmt),
                    cause: format!("{}/{fields}", msg_class(&r.msg)),
                    detail: format!("record {r:?}: the part in front of the message does not show {missing:?}\n   rendered : {have:?}\n   documented layout: {exact:?}"),
                });
            }
        }
    }
    Ok((recs.len() as u64, nontrivial))
}

// ---------------------------------------------------------------- recursion

static INNER: Mutex<Option<&'static dyn Log>> = Mutex::new(None);
struct Chatty;
impl std::fmt::Display for Chatty {
    fn fmt(&self, f: &mut std::fmt::Formatter<'_>) -> std::fmt::Result {
        let l = *INNER.lock().unwrap();
        if let Some(l) = l {
            for m in ["inner one", "inner two"] {
                l.log(&Record::builder().args(format_args!("{m}")).level(Level::Warn).target("tgt").module_path(Some("inner_mod")).file(Some("src/i.rs")).line(Some(3)).build());
            }
        }
        write!(f, "chatty")
    }
}

fn recursion(fmt: Fmt, crlf: bool, mode: ModeK) -> Result<(u64, u64), Fail> {
    recursion_with(fmt, crlf, mode, false)?;
    // with a rotation due at every write: a record is one unit for the rotation, too - no file
    // may end in the middle of a line
    recursion_with(fmt, crlf, mode, true)
}

fn recursion_with(fmt: Fmt, crlf: bool, mode: ModeK, rotate: bool) -> Result<(u64, u64), Fail> {
    let env = Env::new("c20r");
    let mut cfg = if rotate { Cfg::rot(crate::lg::CritK::Size(1), crate::lg::NamingK::Numbers, crate::lg::CleanK::Never) } else { Cfg::norot() };
    cfg.mode = mode;
    cfg.crlf = crlf;
    let ending = cfg.ending();
    env.enter();
    let (logger, handle) = cfg.logger(&env.dir, &env.err).format(fmt.function()).build().map_err(|e| Fail {
        clause: "machinery".into(),
        cause: "build".into(),
        detail: e.to_string(),
    })?;
    let logger: &'static dyn Log = Box::leak(logger);
    *INNER.lock().unwrap() = Some(logger);
    logger.log(&Record::builder().args(format_args!("before")).level(Level::Info).target("tgt").module_path(Some("outer_mod")).file(Some("src/o.rs")).line(Some(1)).build());
    logger.log(&Record::builder().args(format_args!("outer says {}", Chatty)).level(Level::Info).target("tgt").module_path(Some("outer_mod")).file(Some("src/o.rs")).line(Some(2)).build());
    logger.log(&Record::builder().args(format_args!("after")).level(Level::Info).target("tgt").module_path(Some("outer_mod")).file(Some("src/o.rs")).line(Some(3)).build());
    *INNER.lock().unwrap() = None;
    handle.shutdown();
    drop(handle);
    env.leave();
    let scan = crate::family::scan(&env.dir, &cfg.parts, None, cfg.naming(), &[]);
    let mut got = Vec::new();
    for m in &scan.members {
        let content = std::fs::read(env.dir.join(&m.name)).unwrap_or_default();
        if !content.is_empty() && (!content.ends_with(ending.as_bytes()) || content.starts_with(ending.as_bytes())) {
            return Err(Fail {
                clause: "line-split-across-files".into(),
                cause: format!("{fmt:?}/{}/{}", if crlf { "crlf" } else { "lf" }, super::c08::mode_class(mode)),
                detail: format!("format {fmt:?} ending {ending:?} mode {mode:?}, rotation at every write, recursive logging: the file {} holds {:?} - it does not consist of whole lines", m.name, String::from_utf8_lossy(&content)),
            });
        }
        got.extend(content);
    }
    let (lines, rest) = crate::family::split_lines(&got, ending);
    let texts = ["before", "inner one", "inner two", "outer says chatty", "after"];
    let ok = rest.is_empty()
        && lines.len() == texts.len()
        && lines.iter().zip(texts.iter()).all(|(l, t)| {
            let l = strip_ansi(l);
            if fmt == Fmt::Json { l.contains(&format!("\"text\":\"{t}\"")) } else { l.ends_with(t) && !l.contains('\r') }
        });
    if !ok {
        return Err(Fail {
            clause: "recursive-order".into(),
            cause: format!("{fmt:?}/{}/{}", if crlf { "crlf" } else { "lf" }, super::c08::mode_class(mode)),
            detail: format!("format {fmt:?} ending {ending:?} mode {mode:?}: expected the lines {texts:?} each terminated by the configured ending, the file holds {:?}", String::from_utf8_lossy(&got)),
        });
    }
    Ok((5, 5))
}

// ---------------------------------------------------------------- single timestamp

fn single_timestamp(mode: ModeK, use_utc: bool) -> Result<(u64, u64), Fail> {
    let env = Env::new("c20t");
    let sc = crate::scratch::Scratch::new("c20cap");
    env.clock.set_step_on_query(Some(chrono::Duration::seconds(1)));
    env.enter();
    let extra = Recorder::new(LevelFilter::Trace);
    let second_dir = env.dir.join("second");
    let second = flexi_logger::writers::FileLogWriter::builder(FileSpec::default().directory(&second_dir).basename("second").suppress_timestamp())
        .format(flexi_logger::opt_format)
        .try_build()
        .map_err(|e| Fail {
            clause: "machinery".into(),
            cause: "flw".into(),
            detail: e.to_string(),
        })?;
    let mut lb = Logger::with(LogSpecification::trace())
        .log_to_file_and_writer(FileSpec::default().directory(&env.dir).basename("app").suppress_timestamp(), Box::new(second))
        .format(flexi_logger::opt_format)
        .write_mode(mode.write_mode())
        .add_writer("X", Box::new(extra.clone()))
        // the coloured variants of the format functions render the same timestamp
        .format_for_stderr(flexi_logger::colored_opt_format)
        .format_for_stdout(flexi_logger::colored_detailed_format)
        .duplicate_to_stderr(Duplicate::All)
        .duplicate_to_stdout(Duplicate::All)
        .error_channel(ErrorChannel::File(env.err.clone()));
    if use_utc {
        lb = lb.use_utc();
    }
    let (logger, handle) = lb.build().map_err(|e| Fail {
        clause: "machinery".into(),
        cause: "build".into(),
        detail: e.to_string(),
    })?;
    let ce = FdCapture::start(2, sc.path().join("err.txt"));
    let co = FdCapture::start(1, sc.path().join("out.txt"));
    for i in 0..3 {
        let m = format!("rec{i}");
        logger.log(&Record::builder().args(format_args!("{m}")).level(Level::Info).target("{X,_Default}").module_path(Some("m")).file(Some("f.rs")).line(Some(1)).build());
    }
    let out = co.map(FdCapture::finish).unwrap_or_default();
    let errb = ce.map(FdCapture::finish).unwrap_or_default();
    handle.shutdown();
    drop(logger);
    drop(handle);
    env.leave();
    let stamp = |l: &str| {
        // without ANSI escape sequences
        let mut plain = String::new();
        let mut it = l.chars();
        while let Some(c) = it.next() {
            if c == '\u{1b}' {
                for d in it.by_ref() {
                    if d == 'm' {
                        break;
                    }
                }
            } else {
                plain.push(c);
            }
        }
        plain.split(']').next().unwrap_or("").trim_start_matches('[').to_string()
    };
    let file_lines: Vec<String> = String::from_utf8_lossy(&std::fs::read(env.dir.join("app.log")).unwrap_or_default()).lines().map(String::from).collect();
    let second_lines: Vec<String> = String::from_utf8_lossy(&std::fs::read(second_dir.join("second.log")).unwrap_or_default()).lines().map(String::from).collect();
    let out_lines: Vec<String> = String::from_utf8_lossy(&out).lines().map(String::from).collect();
    let err_lines: Vec<String> = String::from_utf8_lossy(&errb).lines().map(String::from).collect();
    let extra_ts: Vec<String> = extra.take().into_iter().map(|r| r.ts).collect();
    for i in 0..3 {
        let outs = [("file", file_lines.get(i)), ("second file writer", second_lines.get(i)), ("stdout", out_lines.get(i)), ("stderr", err_lines.get(i))];
        let mut stamps: Vec<(String, String)> = Vec::new();
        for (name, l) in outs {
            match l {
                Some(l) => stamps.push((name.to_string(), stamp(l))),
                None => {
                    return Err(Fail {
                        clause: "timestamps-differ".into(),
                        cause: format!("missing-output/{}", super::c08::mode_class(mode)),
                        detail: format!("record {i}: no line in {name}; file {file_lines:?} second {second_lines:?} stdout {out_lines:?} stderr {err_lines:?}"),
                    });
                }
            }
        }
        // the additional recording writer renders "%Y-%m-%d %H:%M:%S%.6f": compare the prefix
        if let Some(x) = extra_ts.get(i) {
            stamps.push(("additional writer".to_string(), format!("{x}{}", &stamps[0].1[x.len().min(stamps[0].1.len())..])));
        }
        if stamps.iter().any(|s| s.1 != stamps[0].1) {
            return Err(Fail {
                clause: "timestamps-differ".into(),
                cause: format!("{}{}", super::c08::mode_class(mode), if use_utc { "/use_utc" } else { "" }),
                detail: format!("record {i}: the outputs of one record carry different timestamps: {stamps:?}"),
            });
        }
    }
    Ok((3, 3))
}

// ---------------------------------------------------------------- a format function that fails

/// Writes part of its output and then fails for messages starting with FAIL.
fn flaky_format(w: &mut dyn std::io::Write, _now: &mut flexi_logger::DeferredNow, record: &Record) -> std::io::Result<()> {
    let m = record.args().to_string();
    if m.starts_with("FAIL") {
        write!(w, "partial:")?;
        return Err(std::io::Error::other("format function failed"));
    }
    write!(w, "[{}] {m}", record.level())
}

/// A message whose Display implementation writes part of its text and then panics.
struct Bomb;
impl std::fmt::Display for Bomb {
    fn fmt(&self, f: &mut std::fmt::Formatter<'_>) -> std::fmt::Result {
        write!(f, "partial:")?;
        std::panic::resume_unwind(Box::new("scenario: Display panics"));
    }
}
/// Writes as it goes (what the provided format functions do).
fn streaming_format(w: &mut dyn std::io::Write, _now: &mut flexi_logger::DeferredNow, record: &Record) -> std::io::Result<()> {
    write!(w, "[{}] {}", record.level(), record.args())
}

/// Whatever a failing format function leaves behind, the records around it are framed as usual:
/// each occupies exactly its format output plus one line ending.
fn failing_format(mode: ModeK, crlf: bool, to_stdout: bool, panicking: bool) -> Result<(u64, u64), Fail> {
    let env = Env::new("c20f");
    env.enter();
    let ending = if crlf { "\r\n" } else { "\n" };
    let cause = format!("{}/{}/{}{}", super::c08::mode_class(mode), if crlf { "crlf" } else { "lf" }, if to_stdout { "stdout" } else { "file" }, if panicking { "/panicking-display" } else { "" });
    let sc = crate::scratch::Scratch::new("c20fc");
    let mut cap = None;
    let lb = if to_stdout {
        cap = crate::capture::FdCapture::start(1, sc.path().join("o.txt"));
        flexi_logger::Logger::with(flexi_logger::LogSpecification::trace()).log_to_stdout()
    } else {
        flexi_logger::Logger::with(flexi_logger::LogSpecification::trace()).log_to_file(flexi_logger::FileSpec::default().directory(&env.dir).basename("app").suppress_timestamp())
    };
    let lb = lb.format(if panicking { streaming_format } else { flaky_format }).write_mode(mode.write_mode()).error_channel(flexi_logger::ErrorChannel::File(env.err.clone()));
    let lb = if crlf { lb.use_windows_line_ending() } else { lb };
    let built = lb.build();
    let (logger, handle) = match built {
        Ok(x) => x,
        Err(e) => {
            if let Some(c) = cap {
                c.finish();
            }
            return Err(Fail {
                clause: "build-error".into(),
                cause,
                detail: e.to_string(),
            });
        }
    };
    let msgs = ["one", "FAIL two", "three", "FAIL four", "FAIL five", "six"];
    for m in msgs {
        if panicking && m.starts_with("FAIL") {
            // the message's Display implementation panics after part of its output; the caller
            // catches the panic (as thread pools do) and the thread goes on logging
            let r = std::panic::catch_unwind(std::panic::AssertUnwindSafe(|| {
                logger.log(&Record::builder().args(format_args!("{}", Bomb)).level(Level::Info).target("app").module_path(Some("app")).build());
            }));
            if r.is_ok() {
                // (the logger may also swallow the panic - fine, too)
            }
        } else {
            crate::lg::log_info(&*logger, m);
        }
    }
    handle.shutdown();
    drop(logger);
    drop(handle);
    let content = match cap {
        Some(c) => c.finish(),
        None => std::fs::read(env.dir.join("app.log")).unwrap_or_default(),
    };
    env.leave();
    let text = String::from_utf8_lossy(&content).to_string();
    let lines: Vec<&str> = text.split(ending).collect();
    let mut pos = 0;
    for m in msgs.iter().filter(|m| !m.starts_with("FAIL")) {
        let want = format!("[INFO] {m}");
        match lines[pos..].iter().position(|l| *l == want) {
            Some(p) => pos += p + 1,
            None => {
                return Err(Fail {
                    clause: "framing-after-format-error".into(),
                    cause,
                    detail: format!("format function fails for the records FAIL ...; the record {m:?} must occupy exactly {want:?} + line ending, but the output is {text:?}"),
                })
            }
        }
    }
    if !text.ends_with(ending) {
        return Err(Fail {
            clause: "framing-after-format-error".into(),
            cause,
            detail: format!("the output does not end with the line ending: {text:?}"),
        });
    }
    Ok((6, 3))
}

// units: framing = fmt x ending x mode (54); recursion = fmt x ending (18, both sync modes inside); timestamps 1; failing format 1
fn n_framing() -> usize {
    FMTS.len() * 2 * MODES.len()
}
fn n_rec() -> usize {
    FMTS.len() * 2
}
fn units(_tier: &str) -> usize {
    n_framing() + n_rec() + 2
}
fn bounds(_tier: &str) -> Value {
    json!({"records_per_configuration": recspecs().len(), "formats": FMTS.len(), "endings": 2, "modes": MODES.len(), "messages": messages().len()})
}

fn run_unit(tier: &str, unit: usize, out: &mut Out) {
    THOROUGH.store(tier != "quick", std::sync::atomic::Ordering::Relaxed);
    let case = json!({"unit": unit});
    let results: Vec<Ran<Result<(u64, u64), Fail>>> = if unit < n_framing() {
        let fmt = FMTS[unit / (2 * MODES.len())];
        let crlf = (unit / MODES.len()) % 2 == 1;
        let mode = MODES[unit % MODES.len()];
        vec![run_isolated(Duration::from_secs(120), move || framing_and_fidelity(fmt, crlf, mode))]
    } else if unit < n_framing() + n_rec() {
        let u = unit - n_framing();
        let fmt = FMTS[u / 2];
        let crlf = u % 2 == 1;
        MODES.iter().map(|m| {
            let m = *m;
            run_isolated(Duration::from_secs(60), move || recursion(fmt, crlf, m))
        }).collect()
    } else if unit == n_framing() + n_rec() + 1 {
        let mut v = Vec::new();
        // (also an async mode whose message capacity is larger than the partial output, so that
        // the buffer of the refused record is one the pool would take back)
        for m in MODES.into_iter().chain([ModeK::Async(1, 64, 0), ModeK::Async(2, 4096, 0)]) {
            for crlf in [false, true] {
                v.push(run_isolated(Duration::from_secs(60), move || failing_format(m, crlf, false, false)));
                v.push(run_isolated(Duration::from_secs(60), move || failing_format(m, crlf, false, true)));
                // (the line ending is a setting of the file writer; stdout always gets LF)
                if !m.is_async() && !crlf {
                    v.push(run_isolated(Duration::from_secs(60), move || failing_format(m, crlf, true, false)));
                    v.push(run_isolated(Duration::from_secs(60), move || failing_format(m, crlf, true, true)));
                }
            }
        }
        v
    } else {
        let mut v = Vec::new();
        for m in MODES {
            // use_utc is process-global (DeferredNow::force_utc): only in this dedicated unit, last
            v.push(run_isolated(Duration::from_secs(60), move || single_timestamp(m, false)));
        }
        // use_utc is process-global and cannot be switched on once a timestamp has been
        // formatted without it: a fresh child process
        let exe = std::env::current_exe().expect("exe");
        let o = std::process::Command::new(exe).args(["child", "c20utc"]).output();
        v.push(match o {
            Ok(o) if o.status.success() => Ran::Done(Ok((3, 3))),
            Ok(o) => {
                let text = String::from_utf8_lossy(&o.stdout).to_string();
                let mut it = text.splitn(3, '\u{1f}');
                Ran::Done(Err(Fail {
                    clause: it.next().unwrap_or("child-failed").to_string(),
                    cause: it.next().unwrap_or("use_utc").to_string(),
                    detail: it.next().unwrap_or(&text).to_string(),
                }))
            }
            Err(e) => Ran::Done(Err(Fail {
                clause: "machinery".into(),
                cause: "child".into(),
                detail: e.to_string(),
            })),
        });
        v
    };
    for r in results {
        match r {
            Ran::Done(Ok((n, nt))) => {
                out.evaluations += n;
                for i in 0..nt {
                    out.nontrivial(&(unit, out.evaluations, i));
                }
                out.outcome("ok");
                if unit == 8 * 2 * MODES.len() {
                    out.sample(json!({"format": "json", "records": n, "example_record": format!("{:?}", recspecs()[37])}));
                }
            }
            Ran::Done(Err(f)) => out.violation(Violation::new(&f.clause, f.cause, f.detail, case.clone())),
            Ran::Panicked(m) => out.violation(Violation::new("panic", format!("unit{unit}"), m, case.clone())),
            Ran::Hung => out.violation(Violation::new("hang", format!("unit{unit}"), String::new(), case.clone())),
        }
    }
}

fn replay(case: &Value) -> Vec<Violation> {
    let mut out = Out::default();
    run_unit("quick", case["unit"].as_u64().unwrap_or(0) as usize, &mut out);
    out.violations
}

/// `fxv child c20utc`: the single-timestamp clause with use_utc in a fresh process.
pub fn child_utc() -> i32 {
    // a local time zone that differs from UTC: an output that ignores use_utc shows
    std::env::set_var("TZ", "Asia/Tokyo");
    crate::hooks::init();
    crate::quiet_panics();
    match run_isolated(Duration::from_secs(60), || single_timestamp(ModeK::Direct, true)) {
        Ran::Done(Ok(_)) => 0,
        Ran::Done(Err(f)) => {
            print!("{}\u{1f}{}\u{1f}{}", f.clause, f.cause, f.detail);
            1
        }
        Ran::Panicked(m) => {
            print!("panic\u{1f}use_utc\u{1f}{m}");
            1
        }
        Ran::Hung => {
            print!("hang\u{1f}use_utc\u{1f}");
            1
        }
    }
}
