//! C01 — the rotated log stream is complete, duplicate-free and in order.
//!
//! All words over {write(len), trigger_rotation, flush, clock +1s} up to a depth bound, for a
//! grid of naming schemes x criteria x synchronous write modes (x line endings x name shapes at
//! a smaller depth), executed on the real `Logger`. After every flush and after shutdown the
//! concatenation of the family files in age order must equal the accepted lines.
use super::{all_workers, default_cap, Prop};
use crate::env::Env;
use crate::family;
use crate::lg::{self, AgeK, Cfg, CleanK, CritK, ModeK, NameParts, NG};
use crate::report::{Meta, Out, Violation};
use crate::{for_each_word, run_isolated, Ran};
use serde_json::{json, Value};
use std::time::Duration;

pub fn prop() -> Prop {
    Prop {
        id: "C01",
        meta,
        units,
        run_unit,
        replay,
        bounds,
        wall_cap_s: default_cap,
        max_workers: all_workers,
    }
}

const N: u64 = 20;

fn meta() -> Meta {
    Meta {
        id: "C01",
        level: "model_checking",
        rule: "every word over {W(len in 1,5,N-1,N,N+1,3N+10), R=trigger_rotation, F=flush, T=clock+1s} up to the depth bound, for every configuration (naming x criterion x sync write mode; plus line ending x file-name shape at depth 2); non-trivial = the word contains a write and the run produced at least two files; distinct = distinct (configuration, word); plus four configurations with a custom timestamp format coarser than the rotation rhythm; the 5-byte record's own text ends with the configured line ending",
        assumptions: vec![
            "size limit N=20, buffer capacities 16 and 64, Age::Second, Cleanup::Never".into(),
            "single logging thread; flusher thread of BufferAndFlush parked (its effect is the F operation)".into(),
            "start-time name part only with a frozen clock (the moving start time is C16's finding)".into(),
        ],
    }
}

#[derive(Clone, Copy, Debug, PartialEq, Eq, Hash)]
enum Op {
    W(u64),
    R,
    F,
    T,
}

fn alphabet(with_t: bool) -> Vec<Op> {
    let mut v = vec![
        Op::W(5), // its text ends with the line ending
        Op::W(1),
        Op::W(N - 1),
        Op::W(N),
        Op::W(N + 1),
        Op::W(3 * N + 10),
        Op::R,
        Op::F,
    ];
    if with_t {
        v.push(Op::T);
    }
    v
}

#[derive(Clone, Debug)]
struct Case {
    cfg: Cfg,
    depth: usize,
    with_t: bool,
    starttime: bool,
}

fn name_shapes() -> Vec<NameParts> {
    let p = |b: Option<&str>, d: Option<&str>, s: Option<&str>, t: bool| NameParts {
        basename: b.map(String::from),
        discriminant: d.map(String::from),
        suffix: s.map(String::from),
        use_timestamp: t,
    };
    vec![
        p(Some("app"), Some("dd"), Some("log"), false),
        p(None, None, Some("log"), false),
        p(Some("app"), None, None, false),
        p(None, Some("dd"), None, false),
        p(Some("app"), None, Some("log"), true),
        p(None, None, None, false),
    ]
}

fn grid(tier: &str) -> Vec<Case> {
    let (d_main, d_cross) = if tier == "quick" { (4, 2) } else { (5, 3) };
    let mut g = Vec::new();
    for naming in NG {
        for crit in [
            CritK::Size(N),
            CritK::Age(AgeK::Second),
            CritK::AgeOrSize(AgeK::Second, N),
        ] {
            for mode in [
                ModeK::Direct,
                ModeK::BufDont(16),
                ModeK::BufDont(64),
                ModeK::BufFlush(64, 3_600_000),
            ] {
                let mut cfg = Cfg::rot(crit, naming, CleanK::Never);
                cfg.mode = mode;
                g.push(Case {
                    cfg,
                    depth: d_main,
                    with_t: true,
                    starttime: false,
                });
            }
        }
    }
    // a timestamp format coarser than the rotation rhythm: every rotation of a run lands on the
    // same infix and must get a .restart-NNNN extension, whatever the clock does in between
    for crit in [CritK::Size(N), CritK::Age(AgeK::Second)] {
        for mode in [ModeK::Direct, ModeK::BufDont(16)] {
            let mut cfg = Cfg::rot(crit, crate::lg::NamingK::CoarseDirect, CleanK::Never);
            cfg.mode = mode;
            g.push(Case {
                cfg,
                depth: d_main,
                with_t: true,
                starttime: false,
            });
        }
    }
    // cross with line ending and file-name shapes at a smaller depth
    for naming in NG {
        for crlf in [false, true] {
            for parts in name_shapes() {
                for mode in [ModeK::Direct, ModeK::BufDont(16)] {
                    let mut cfg = Cfg::rot(CritK::Size(N), naming, CleanK::Never);
                    cfg.mode = mode;
                    cfg.crlf = crlf;
                    let st = parts.use_timestamp;
                    cfg.parts = parts.clone();
                    g.push(Case {
                        cfg,
                        depth: d_cross,
                        with_t: !st,
                        starttime: st,
                    });
                }
            }
        }
    }
    g
}

fn units(tier: &str) -> usize {
    grid(tier).len()
}
fn bounds(tier: &str) -> Value {
    let g = grid(tier);
    json!({
        "configurations": g.len(),
        "max_depth": g.iter().map(|c| c.depth).max(),
        "alphabet": format!("{:?}", alphabet(true)),
        "size_limit": N,
    })
}

struct Obs {
    files: usize,
    sizes: Vec<u64>,
}

fn check_stream(env: &Env, c: &Case, expected: &[u8], when: &str) -> Result<Obs, (String, String)> {
    let st = if c.starttime {
        Some(
            crate::hooks::base_instant()
                .format("%Y-%m-%d_%H-%M-%S")
                .to_string(),
        )
    } else {
        None
    };
    let scan = family::scan(&env.dir, &c.cfg.parts, st.as_deref(), c.cfg.naming(), &[]);
    if !scan.foreign.is_empty() || !scan.other.is_empty() {
        return Err((
            "unclassifiable-file".into(),
            format!("{when}: files outside the documented family: {:?} {:?}", scan.foreign, scan.other),
        ));
    }
    let got = scan.stream(&env.dir).map_err(|e| ("stream-mismatch".to_string(), e))?;
    if got != expected {
        return Err((
            "stream-mismatch".into(),
            format!(
                "{when}: files {:?}\n   read    : {:?}\n   expected: {:?}",
                scan.names(),
                String::from_utf8_lossy(&got),
                String::from_utf8_lossy(expected)
            ),
        ));
    }
    let sizes = scan
        .members
        .iter()
        .map(|m| std::fs::metadata(env.dir.join(&m.name)).map_or(0, |x| x.len()))
        .collect();
    Ok(Obs {
        files: scan.members.len(),
        sizes,
    })
}

fn run_word(c: &Case, word: &[Op]) -> Result<Obs, (String, String)> {
    let env = Env::new("c01");
    let ending = c.cfg.ending();
    env.enter();
    let (logger, handle) = c
        .cfg
        .build_logger(&env.dir, &env.err)
        .map_err(|e| ("build-error".to_string(), e.to_string()))?;
    let mut expected: Vec<u8> = Vec::new();
    let mut seq = 0;
    for (i, op) in word.iter().enumerate() {
        match op {
            Op::W(l) => {
                let l = (*l as usize).max(ending.len());
                let mut msg = lg::payload(0, seq, l - ending.len());
                // the 5-byte record is one whose own text ends with the configured line ending
                // (the line is format output + ending, whatever the output ends with)
                if l == 5 && msg.len() >= ending.len() {
                    msg.truncate(msg.len() - ending.len());
                    msg.push_str(ending);
                }
                seq += 1;
                expected.extend(msg.as_bytes());
                expected.extend(ending.as_bytes());
                lg::log_info(&*logger, &msg);
            }
            Op::R => {
                handle
                    .trigger_rotation()
                    .map_err(|e| ("rotation-error".to_string(), format!("op {i}: {e}")))?;
            }
            Op::F => {
                handle.flush();
                env.observe();
                check_stream(&env, c, &expected, &format!("after op {i} (flush)"))?;
            }
            Op::T => env.clock.advance_secs(1),
        }
        env.observe();
        if c.cfg.mode == ModeK::Direct {
            // direct mode: everything is on disk at any time
            check_stream(&env, c, &expected, &format!("after op {i} (direct mode)"))?;
        }
    }
    handle.shutdown();
    drop(logger);
    drop(handle);
    env.leave();
    let obs = check_stream(&env, c, &expected, "after shutdown")?;
    let errs = env.errlines();
    if !errs.is_empty() {
        return Err(("error-channel".into(), format!("{errs:?}")));
    }
    Ok(obs)
}

fn first_special(word: &[Op]) -> &'static str {
    for op in word {
        match op {
            Op::R => return "R",
            Op::T => return "T",
            Op::W(l) if *l > 16 => return "W>cap",
            _ => {}
        }
    }
    "W"
}

fn judge(c: &Case, word: &[Op], unit: usize, tier: &str, widx: &[usize]) -> (Option<Violation>, Option<Obs>) {
    let cc = c.clone();
    let ww = word.to_vec();
    let case = json!({"tier": tier, "unit": unit, "word": widx, "ops": format!("{word:?}"), "cfg": format!("{:?}", c.cfg)});
    let cause = |clause: &str| {
        format!(
            "{}/{}/{}{}",
            c.cfg.naming().map_or("none", |n| n.short()),
            super::c08::mode_class(c.cfg.mode),
            first_special(word),
            if c.starttime { "/starttime" } else { "" }
        ) + if clause == "x" { "" } else { "" }
    };
    match run_isolated(Duration::from_secs(20), move || run_word(&cc, &ww)) {
        Ran::Done(Ok(o)) => (None, Some(o)),
        Ran::Done(Err((clause, detail))) => (
            Some(Violation::new(&clause, cause(&clause), format!("cfg={:?} word={word:?}\n  {detail}", c.cfg), case)),
            None,
        ),
        Ran::Panicked(m) => (
            Some(Violation::new("panic", cause("panic"), format!("cfg={:?} word={word:?}: {m}", c.cfg), case)),
            None,
        ),
        Ran::Hung => (
            Some(Violation::new("hang", cause("hang"), format!("cfg={:?} word={word:?}", c.cfg), case)),
            None,
        ),
    }
}

fn run_unit(tier: &str, unit: usize, out: &mut Out) {
    let g = grid(tier);
    let c = &g[unit];
    let alpha = alphabet(c.with_t);
    for_each_word(alpha.len(), c.depth, |w| {
        let word: Vec<Op> = w.iter().map(|i| alpha[*i]).collect();
        let (v, obs) = judge(c, &word, unit, tier, w);
        out.evaluations += 1;
        out.traces_validated += 1;
        out.transitions += word.len() as u64 + 1;
        if let Some(o) = &obs {
            out.state(&(unit, &o.sizes));
            out.outcome(format!("files={}", o.files));
            if o.files >= 2 && word.iter().any(|x| matches!(x, Op::W(_))) {
                out.nontrivial(&(unit, w));
            }
            if unit % 31 == 0 && word.len() == c.depth && o.files >= 3 && out.samples.len() < 4 {
                out.sample(json!({"cfg": format!("{:?}", c.cfg), "word": format!("{word:?}"), "file_sizes_in_age_order": o.sizes}));
            }
        }
        if let Some(v) = v {
            let (v2, _) = judge(c, &word, unit, tier, w);
            match v2 {
                Some(v2) if v2.key() == v.key() => out.violation(v),
                _ => out.violation(Violation::new(
                    "nondeterministic",
                    "replay-diverged",
                    v.detail.clone(),
                    v.case.clone(),
                )),
            }
        }
    });
    out.max("max_depth_completed", c.depth as u64);
}

fn replay(case: &Value) -> Vec<Violation> {
    let tier = case["tier"].as_str().unwrap_or("quick");
    let unit = case["unit"].as_u64().unwrap_or(0) as usize;
    let g = grid(tier);
    let Some(c) = g.get(unit) else { return vec![] };
    let alpha = alphabet(c.with_t);
    let w: Vec<usize> = case["word"]
        .as_array()
        .into_iter()
        .flatten()
        .filter_map(|x| x.as_u64().map(|n| n as usize))
        .collect();
    let word: Vec<Op> = w.iter().filter_map(|i| alpha.get(*i).copied()).collect();
    println!("replay C01: cfg={:?}\n  word={word:?}", c.cfg);
    let (v, o) = judge(c, &word, unit, tier, &w);
    if let Some(o) = o {
        println!("file sizes in age order: {:?}", o.sizes);
    }
    v.into_iter().collect()
}
