//! C14 — files outside the logger's naming pattern are never touched and never disturb it.
//!
//! Differential check: the same history runs in a clean directory and in a directory
//! pre-populated with every subset (up to a size bound) of a near-miss name alphabet, filtered
//! to foreign names by the reference classifier. Foreign files must be untouched and the family,
//! the listing and the error channel must be identical in both runs.
use super::{all_workers, default_cap, Prop};
use crate::env::Env;
use crate::family;
use crate::fl::{HOp, Hist};
use crate::lg::{Cfg, CleanK, CritK, NamingK, NG};
use crate::report::{Meta, Out, Violation};
use crate::{run_isolated, Ran};
use flexi_logger::LogfileSelector;
use serde_json::{json, Value};
use std::collections::BTreeMap;
use std::os::unix::fs::MetadataExt;
use std::time::Duration;

pub fn prop() -> Prop {
    Prop {
        id: "C14",
        meta,
        units,
        run_unit,
        replay,
        bounds,
        wall_cap_s: default_cap,
        max_workers: all_workers,
    }
}

fn meta() -> Meta {
    Meta {
        id: "C14",
        level: "model_checking",
        rule: "every subset of size <= 2 (quick) / <= 3 (thorough) of the near-miss name alphabet (names sharing a prefix with the family: longer/shorter basename, other discriminant, other suffix, extra dots, missing infix, infix-like fragments, multi-byte characters, a sub-directory named like a log file), filtered to foreign names by the reference classifier, x naming x cleanup {Never, KeepLogFiles(1), KeepCompressedFiles(1)} x suffix {log, none} x restart append on/off, history W W W Restart W R W; states = distinct (configuration, foreign set) explored, transitions = runs executed (two per case); non-trivial = foreign set not empty; the alphabet also holds signed numbers (app_r+0042.log) and two entries that are not files (a directory and a symlink to a directory named like rotated files); the alphabet also holds a well-formed infix followed by more dotted text and the suffix / .gz in another case; and the name parts in another case; plus a named pipe, a timestamp shape that is no date, restart extensions followed by text, files of the other timestamp scheme, and (timestamp namings) a directory with exactly the name of the next rotation target",
        assumptions: vec![
            "reference classifier of family membership written from the documentation of FileSpec / Naming (family.rs)".into(),
            "virtual clock identical in both runs".into(),
        ],
    }
}

const LIMIT: u64 = 15;

fn near_misses(suffix: bool) -> Vec<(&'static str, bool)> {
    // (name, is a directory)
    let mut v = vec![
        ("app", false),
        ("appé.log", false),
        ("app_.log", false),
        ("app_r.log", false),
        ("app_r1.log", false),
        ("app_r12.log", false),
        ("app_r2x.log", false),
        ("app_rX.log", false),
        ("app_r00001_old.log", false),
        ("app_r00001.log.bak", false),
        ("app_r00041.txt", false),
        ("app_r00001.log.gz.gz", false),
        ("app_r2024.log", false),
        ("app_r9999-99-99_99-99-99.log", false),
        // the shape of a timestamp, but no date of the calendar
        ("app_r2023-02-30_10-00-00.log", false),
        ("app_r2024-05-15_12-30-10.restart-abcd.log", false),
        ("app_r2024-05-15_12-30-10.restart-", false),
        // files of another timestamp scheme (members of the family under that scheme only)
        ("app_r2020-01-01_00-00-00.log", false),
        ("app_2020-01-01_00-00-00.log", false),
        // a multi-byte character directly in front of the text of the suffix (no dot)
        ("app_r00000\u{ff0e}log", false),
        ("app_caf\u{e9}log", false),
        // a well-formed timestamp of the future followed by more text
        ("app_r2036-03-03_12-00-00-copy.log", false),
        // a well-formed restart extension followed by more text
        ("app_r2020-01-01_00-00-00.restart-0000-copy.log", false),
        ("app_r2020-01-01_00-00-00.restart-00000.log", false),
        ("app_rCURRENT.log.old", false),
        ("app__r00000.log", false),
        ("appr00000.log", false),
        ("apple_r00001.log", false),
        ("ap_r00001.log", false),
        ("app_d_r00001.log", false),
        ("x_app_r00001.log", false),
        ("app_r00000.log.d", true),
        ("app_é_r00001.log", false),
        ("app_r00007.gz", false),
        // numbers with a sign (integer parsers accept a leading '+')
        ("app_r+0042.log", false),
        ("app_r+00042.log", false),
        ("app_r-0042.log", false),
        // a well-formed infix followed by more dotted text
        ("app_r2020-01-01_00-00-00.bak.log", false),
        ("app_r2024-05-15_12-30-10.1.log", false),
        ("app_r00001.bak.log", false),
        // the suffix (or .gz) in another case: other files on a case-sensitive file system
        ("app_r00007.LOG", false),
        ("app_r2020-01-01_00-00-00.Log", false),
        ("app_r00001.log.GZ", false),
        // the name parts in another case
        ("APP_r00001.log", false),
        ("App_r2020-01-01_00-00-00.log", false),
        ("APP_rCURRENT.log", false),
    ];
    if suffix {
        v.push(("app_r00001", false));
        v.push(("app_rCURRENT", false));
        // entries that are not files, whatever their name: a directory and a symlink to a
        // directory (see SYMLINKS) named like rotated files
        v.push(("app_r00042.log", true));
        v.push(("app_r00043.log", true));
        // a named pipe (see FIFOS): reading it would block for ever
        v.push(("app_r00044.log", true));
    } else {
        v.push(("app_r00001.log", false));
        v.push(("app_r00002.txt", false));
        v.push(("app_r+0042", false));
        v.push(("app_r00042", true));
        v.push(("app_r00043", true));
        v.push(("app_r00044", true));
    }
    v
}

/// "directories" of the alphabet that are created as named pipes
const FIFOS: [&str; 2] = ["app_r00044.log", "app_r00044"];

/// "directories" of the alphabet that are created as a symlink to a directory next to the log
/// directory
const SYMLINKS: [&str; 2] = ["app_r00043.log", "app_r00043"];

#[derive(Clone, Debug)]
struct Case {
    cfg: Cfg,
    restart_append: bool,
}

fn grid() -> Vec<Case> {
    let mut g = Vec::new();
    for naming in NG {
        for clean in [CleanK::Never, CleanK::Log(1), CleanK::Gz(1)] {
            for suffix in [true, false] {
                for restart_append in [false, true] {
                    let mut cfg = Cfg::rot(CritK::Size(LIMIT), naming, clean);
                    if !suffix {
                        cfg.parts.suffix = None;
                    }
                    g.push(Case { cfg, restart_append });
                }
            }
        }
    }
    g
}

fn history(c: &Case) -> Vec<HOp> {
    vec![HOp::W(20), HOp::W(20), HOp::W(20), HOp::Restart(c.restart_append), HOp::W(20), HOp::R, HOp::W(20)]
}

fn foreign_names(c: &Case) -> Vec<(&'static str, bool)> {
    near_misses(c.cfg.parts.suffix.is_some())
        .into_iter()
        .filter(|(n, is_dir)| *is_dir || family::classify(&c.cfg.parts, None, c.cfg.naming(), n).is_none())
        .collect()
}

fn subsets(n: usize, max: usize) -> Vec<Vec<usize>> {
    let mut v = vec![vec![]];
    for a in 0..n {
        v.push(vec![a]);
    }
    if max >= 2 {
        for a in 0..n {
            for b in a + 1..n {
                v.push(vec![a, b]);
            }
        }
    }
    if max >= 3 {
        for a in 0..n {
            for b in a + 1..n {
                for c in b + 1..n {
                    v.push(vec![a, b, c]);
                }
            }
        }
    }
    v
}

fn units(_tier: &str) -> usize {
    grid().len()
}
fn bounds(tier: &str) -> Value {
    json!({"configurations": grid().len(), "near_miss_alphabet": near_misses(true).len(), "max_foreign_set_size": if tier == "quick" { 2 } else { 3 }})
}

#[derive(Debug, Clone, PartialEq)]
struct RunObs {
    /// family files (name, content) in age order
    family: Vec<(String, Vec<u8>)>,
    /// existing_log_files output (file names) per selector, queried after every operation
    listings: Vec<Vec<String>>,
    errs: Vec<String>,
    /// non-family entries after the run: name -> (content or marker, mode, mtime)
    others: BTreeMap<String, (Vec<u8>, u32, i64)>,
}

fn selectors(c: &Case) -> Vec<LogfileSelector> {
    let mut v = vec![
        LogfileSelector::default(),
        LogfileSelector::default().with_r_current().with_compressed_files(),
        LogfileSelector::none().with_compressed_files(),
    ];
    if let Some(ci) = c.cfg.naming().and_then(NamingK::current_infix) {
        v.push(LogfileSelector::none().with_custom_current(ci));
    }
    v
}

fn meta_of(p: &std::path::Path) -> (Vec<u8>, u32, i64) {
    match std::fs::symlink_metadata(p) {
        Ok(md) if md.is_dir() => (b"<dir>".to_vec(), md.mode(), md.mtime()),
        Ok(md) if std::os::unix::fs::FileTypeExt::is_fifo(&md.file_type()) => (b"<fifo>".to_vec(), md.mode(), md.mtime()),
        Ok(md) => (std::fs::read(p).unwrap_or_default(), md.mode(), md.mtime()),
        Err(_) => (b"<missing>".to_vec(), 0, 0),
    }
}

fn run(c: &Case, foreign: &[(&'static str, bool)]) -> Result<(RunObs, BTreeMap<String, (Vec<u8>, u32, i64)>), String> {
    run2(c, foreign, false)
}

/// `late_dir`: right before the restart, a directory is created that has the name of a compressed
/// file of the family without ".gz" (the name its original had).
fn run2(c: &Case, foreign: &[(&'static str, bool)], late_dir: bool) -> Result<(RunObs, BTreeMap<String, (Vec<u8>, u32, i64)>), String> {
    let env = Env::new("c14");
    let mut before = BTreeMap::new();
    for (i, (n, is_dir)) in foreign.iter().enumerate() {
        let p = env.dir.join(n);
        if *is_dir && SYMLINKS.contains(n) {
            let target = env.root.path().join("archive.d");
            std::fs::create_dir_all(&target).map_err(|e| e.to_string())?;
            std::os::unix::fs::symlink(&target, &p).map_err(|e| e.to_string())?;
        } else if *is_dir && FIFOS.contains(n) {
            let cp = std::ffi::CString::new(p.to_string_lossy().as_bytes()).map_err(|e| e.to_string())?;
            if unsafe { libc::mkfifo(cp.as_ptr(), 0o644) } != 0 {
                return Err(format!("mkfifo {}: {}", p.display(), std::io::Error::last_os_error()));
            }
        } else if *is_dir {
            std::fs::create_dir_all(&p).map_err(|e| e.to_string())?;
            std::fs::write(p.join("inner.log"), b"inner\n").ok();
        } else {
            std::fs::write(&p, format!("foreign {i}\n")).map_err(|e| e.to_string())?;
            env.clock.set_created(&p, crate::hooks::ts(2024, 5, 1, 8, 0, 0));
        }
        before.insert((*n).to_string(), meta_of(&p));
    }
    env.enter();
    let mut h = Hist::new(&env, c.cfg.clone());
    let mut listings = Vec::new();
    for op in history(c) {
        if late_dir && matches!(op, HOp::Restart(_)) {
            if let Some(gz) = crate::family::list_names(&env.dir).into_iter().find(|n| n.ends_with(".gz")) {
                let name = gz.trim_end_matches(".gz").to_string();
                let p = env.dir.join(&name);
                if !p.exists() {
                    std::fs::create_dir_all(&p).map_err(|e| e.to_string())?;
                    std::fs::write(p.join("inner.log"), b"inner\n").ok();
                    before.insert(name, meta_of(&p));
                }
            }
        }
        h.apply(op).map_err(|e| format!("{e:?}"))?;
        if let Some(l) = h.live.as_ref() {
            for sel in selectors(c) {
                let mut names: Vec<String> = l
                    .handle
                    .existing_log_files(&sel)
                    .map_err(|e| e.to_string())?
                    .iter()
                    .map(|p| p.file_name().map(|f| f.to_string_lossy().to_string()).unwrap_or_default())
                    .collect();
                names.sort();
                listings.push(names);
            }
        }
    }
    h.stop();
    drop(h);
    env.leave();
    let scan = family::scan(&env.dir, &c.cfg.parts, None, c.cfg.naming(), &[]);
    let family = scan.contents(&env.dir)?;
    let mut others = BTreeMap::new();
    for n in scan.foreign.iter().chain(scan.other.iter()) {
        others.insert(n.clone(), meta_of(&env.dir.join(n)));
    }
    Ok((
        RunObs {
            family,
            listings,
            errs: env.errlines(),
            others,
        },
        before,
    ))
}

fn name_class(n: &str) -> &'static str {
    // stable class of a near-miss name for the finding key
    match n {
        "appé.log" | "app_é_r00001.log" => "multi-byte",
        "app_r1.log" | "app_r.log" | "app_.log" | "app" => "short-infix",
        "app_r12.log" | "app_r2x.log" | "app_r2024.log" | "app_r00001_old.log" => "r+digit-fragment",
        "app_r+0042.log" | "app_r+00042.log" | "app_r-0042.log" | "app_r+0042" => "signed-number",
        "app_r2020-01-01_00-00-00.bak.log" | "app_r2024-05-15_12-30-10.1.log" | "app_r00001.bak.log" => "infix+dotted-text",
        "app_r00007.LOG" | "app_r2020-01-01_00-00-00.Log" | "app_r00001.log.GZ" => "suffix-in-other-case",
        "APP_r00001.log" | "App_r2020-01-01_00-00-00.log" | "APP_rCURRENT.log" => "basename-in-other-case",
        "app_r00042.log" | "app_r00042" => "directory-named-like-a-log-file",
        "app_r00043.log" | "app_r00043" => "symlink-to-directory-named-like-a-log-file",
        "app_r00044.log" | "app_r00044" => "named-pipe-named-like-a-log-file",
        "app_r2023-02-30_10-00-00.log" => "timestamp-shape-but-no-date",
        "app_r2020-01-01_00-00-00.log" | "app_2020-01-01_00-00-00.log" => "other-timestamp-scheme",
        "app_r2036-03-03_12-00-00-copy.log" => "future-timestamp+text",
        "app_r00000\u{ff0e}log" | "app_caf\u{e9}log" => "multi-byte-before-suffix-text",
        "app_r2020-01-01_00-00-00.restart-0000-copy.log" | "app_r2020-01-01_00-00-00.restart-00000.log" => "restart-extension+text",
        "app_r9999-99-99_99-99-99.log" | "app_r2024-05-15_12-30-10.restart-abcd.log" | "app_r2024-05-15_12-30-10.restart-" => "timestamp-like",
        "app_r00000.log.d" => "directory",
        "app_r00001.log.gz.gz" | "app_r00007.gz" | "app_r00001.log.bak" | "app_rCURRENT.log.old" => "extra-extension",
        "app_r00041.txt" | "app_r00002.txt" | "app_r00001.log" | "app_r00001" | "app_rCURRENT" => "other-suffix",
        _ => "other-prefix",
    }
}

struct Fail {
    clause: &'static str,
    name: String,
    detail: String,
}

fn compare(clean: &RunObs, pop: &RunObs, before: &BTreeMap<String, (Vec<u8>, u32, i64)>) -> Result<(), Fail> {
    // (1) foreign files untouched, nothing new outside the family
    for (n, b) in before {
        match pop.others.get(n) {
            None => {
                return Err(Fail {
                    clause: "foreign-removed",
                    name: n.clone(),
                    detail: format!("foreign file {n} no longer exists (or became part of what the reference calls family)"),
                });
            }
            Some(a) if a != b => {
                return Err(Fail {
                    clause: "foreign-modified",
                    name: n.clone(),
                    detail: format!("foreign file {n} changed: before {:?} after {:?}", (String::from_utf8_lossy(&b.0), b.1, b.2), (String::from_utf8_lossy(&a.0), a.1, a.2)),
                });
            }
            _ => {}
        }
    }
    for n in pop.others.keys() {
        if !before.contains_key(n) {
            return Err(Fail {
                clause: "foreign-created",
                name: n.clone(),
                detail: format!("a file outside the family appeared: {n}"),
            });
        }
    }
    // (2) the logger behaves identically
    let culprit = before.keys().next().cloned().unwrap_or_default();
    if clean.family != pop.family {
        return Err(Fail {
            clause: "family-differs",
            name: culprit,
            detail: format!(
                "family in the clean directory {:?}\n   with foreign files {:?}",
                clean.family.iter().map(|f| (&f.0, f.1.len())).collect::<Vec<_>>(),
                pop.family.iter().map(|f| (&f.0, f.1.len())).collect::<Vec<_>>()
            ),
        });
    }
    if clean.listings != pop.listings {
        let i = clean.listings.iter().zip(pop.listings.iter()).position(|(a, b)| a != b).unwrap_or(0);
        return Err(Fail {
            clause: "listing-differs",
            name: culprit,
            detail: format!("existing_log_files query #{i}: clean {:?}, with foreign files {:?}", clean.listings.get(i), pop.listings.get(i)),
        });
    }
    if clean.errs != pop.errs {
        return Err(Fail {
            clause: "errors-differ",
            name: culprit,
            detail: format!("error channel: clean {:?}, with foreign files {:?}", clean.errs, pop.errs),
        });
    }
    Ok(())
}

fn judge(c: &Case, foreign: &[(&'static str, bool)], clean: &RunObs, case: Value) -> Option<Violation> {
    let cc = c.clone();
    let ff = foreign.to_vec();
    let names: Vec<&str> = foreign.iter().map(|f| f.0).collect();
    let cls = |n: &str| format!("{}/{}/{}", name_class(n), c.cfg.naming().map_or("none", NamingK::short), match c.cfg.rotation.map(|r| r.2) {
        Some(CleanK::Log(_)) => "keeplog",
        Some(CleanK::Gz(_)) => "gz",
        _ => "never",
    });
    match run_isolated(Duration::from_secs(30), move || run(&cc, &ff)) {
        Ran::Done(Ok((pop, before))) => match compare(clean, &pop, &before) {
            Ok(()) => None,
            Err(f) => Some(Violation::new(f.clause, cls(&f.name), format!("cfg={:?} restart_append={}\n  foreign files {names:?}\n  {}", c.cfg, c.restart_append, f.detail), case)),
        },
        Ran::Done(Err(e)) => Some(Violation::new("run-error", cls(names.first().copied().unwrap_or("")), format!("cfg={:?} foreign {names:?}: {e}", c.cfg), case)),
        Ran::Panicked(m) => {
            // attribute the panic to the member of the set that makes it happen alone, if any
            Some(Violation::new("panic", cls(names.first().copied().unwrap_or("")), format!("cfg={:?} restart_append={} foreign {names:?}: {m}", c.cfg, c.restart_append), case))
        }
        Ran::Hung => Some(Violation::new("hang", cls(names.first().copied().unwrap_or("")), format!("cfg={:?} foreign {names:?}", c.cfg), case)),
    }
}

fn run_unit(tier: &str, unit: usize, out: &mut Out) {
    let g = grid();
    let c = &g[unit];
    let cc = c.clone();
    let clean = match run_isolated(Duration::from_secs(30), move || run(&cc, &[])) {
        Ran::Done(Ok((o, _))) => o,
        other => {
            out.violation(Violation::new("clean-run-failed", "machinery", format!("cfg={:?}: {other:?}", c.cfg), json!({"unit": unit, "set": []})));
            return;
        }
    };
    out.evaluations += 1;
    dir_in_the_way(c, &clean, unit, out);
    // a directory that appears next to a compressed file of the family and carries the name of
    // its original: nothing may change
    if matches!(c.cfg.rotation.map(|r| r.2), Some(CleanK::Gz(_))) {
        let cc = c.clone();
        let case = json!({"unit": unit, "late_dir": true});
        out.evaluations += 1;
        out.count("late_directory_cases", 1);
        let key = format!("directory-named-like-the-original-of-a-compressed-file/{}/gz", c.cfg.naming().map_or("none", NamingK::short));
        match run_isolated(Duration::from_secs(30), move || run2(&cc, &[], true)) {
            Ran::Done(Ok((pop, before))) => {
                if let Err(f) = compare(&clean, &pop, &before) {
                    out.violation(Violation::new(f.clause, key, format!("cfg={:?} restart_append={}: {}", c.cfg, c.restart_append, f.detail), case));
                }
            }
            Ran::Done(Err(e)) => out.violation(Violation::new("run-error", key, e, case)),
            Ran::Panicked(m) => out.violation(Violation::new("panic", key, m, case)),
            Ran::Hung => out.violation(Violation::new("hang", key, String::new(), case)),
        }
    }
    let names = foreign_names(c);
    let max = if tier == "quick" { 2 } else { 3 };
    // singletons first: a set is only explored if none of its proper subsets already failed with
    // the same clause (keeps the report minimal and the finding keys attributable)
    let mut bad_single: Vec<usize> = Vec::new();
    for set in subsets(names.len(), max) {
        if set.is_empty() {
            continue;
        }
        if set.len() > 1 && set.iter().any(|i| bad_single.contains(i)) {
            out.count("sets_skipped_because_a_member_fails_alone", 1);
            continue;
        }
        let foreign: Vec<(&'static str, bool)> = set.iter().map(|i| names[*i]).collect();
        let case = json!({"unit": unit, "set": foreign.iter().map(|f| f.0).collect::<Vec<_>>()});
        let v = judge(c, &foreign, &clean, case.clone());
        out.evaluations += 1;
        out.traces_validated += 1;
        out.transitions += 2;
        out.state(&(unit, &set));
        out.nontrivial(&(unit, &set));
        out.outcome(format!("set_size={}", set.len()));
        if out.samples.len() < 3 && set.len() == 2 && v.is_none() {
            out.sample(json!({"cfg": format!("{:?}", c.cfg.rotation), "suffix": c.cfg.parts.suffix, "foreign_set": foreign.iter().map(|f| f.0).collect::<Vec<_>>(), "history": format!("{:?}", history(c))}));
        }
        if let Some(v) = v {
            if set.len() == 1 {
                bad_single.push(set[0]);
            }
            let v2 = judge(c, &foreign, &clean, case);
            match v2 {
                Some(v2) if v2.key() == v.key() => out.violation(v),
                _ => out.violation(Violation::new("nondeterministic", "replay-diverged", v.detail.clone(), v.case.clone())),
            }
        }
    }
}

/// A directory that has exactly the name of a file that the logger is going to create by
/// rotation: the directory stays as it is, nothing is reported, and no record is lost (the names
/// of the rotated files may differ from the clean run, so only the record stream is compared).
fn dir_in_the_way(c: &Case, clean: &RunObs, unit: usize, out: &mut Out) {
    let cur = c.cfg.naming().and_then(NamingK::current_infix);
    let targets: Vec<String> = clean
        .family
        .iter()
        .map(|f| f.0.clone())
        .filter(|n| !n.ends_with(".gz") && cur.map_or(true, |ci| !n.contains(ci)))
        // only where the code itself treats any entry at the target path as a collision
        // (`exists()` on the plain timestamp name); a directory at the path of a numbered file or
        // of a ".restart-" sibling makes the rename fail: an environment fault, reported as such
        // (C19), and outside what this property promises
        .filter(|n| !n.contains(".restart-") && !matches!(c.cfg.naming(), Some(NamingK::Numbers | NamingK::NumbersDirect) | None))
        .collect();
    let mut targets = targets;
    // with a direct naming nothing of the logger's is called rCURRENT: a directory of that name is
    // foreign, and no selector may list it
    if c.cfg.naming().is_some_and(NamingK::direct) && c.cfg.parts.suffix.as_deref() == Some("log") && c.cfg.parts.basename.as_deref() == Some("app") && c.cfg.parts.discriminant.is_none() && !c.cfg.parts.use_timestamp {
        targets.push("app_rCURRENT.log".to_string());
    }
    for t in targets {
        let name: &'static str = Box::leak(t.clone().into_boxed_str());
        let case = json!({"unit": unit, "dir_in_the_way": t});
        let v = judge_dir(c, name, clean, case.clone());
        out.evaluations += 1;
        out.count("directory_in_the_way_cases", 1);
        out.outcome("dir-in-the-way");
        if let Some(v) = v {
            match judge_dir(c, name, clean, case) {
                Some(v2) if v2.key() == v.key() => out.violation(v),
                _ => out.violation(Violation::new("nondeterministic", "replay-diverged", v.detail.clone(), v.case.clone())),
            }
        }
    }
}

fn judge_dir(c: &Case, name: &'static str, clean: &RunObs, case: Value) -> Option<Violation> {
    let cc = c.clone();
    let key = format!("directory-named-like-the-rotation-target/{}/{}", c.cfg.naming().map_or("none", NamingK::short), match c.cfg.rotation.map(|r| r.2) {
        Some(CleanK::Log(_)) => "keeplog",
        Some(CleanK::Gz(_)) => "gz",
        _ => "never",
    });
    let ctx = format!("cfg={:?} restart_append={} directory {name}", c.cfg, c.restart_append);
    match run_isolated(Duration::from_secs(30), move || run(&cc, &[(name, true)])) {
        Ran::Done(Ok((pop, before))) => {
            match pop.others.get(name) {
                Some(a) if Some(a) == before.get(name) => {}
                other => return Some(Violation::new("foreign-modified", key, format!("{ctx}: before {:?} after {other:?}", before.get(name)), case)),
            }
            if pop.errs != clean.errs {
                return Some(Violation::new("errors-differ", key, format!("{ctx}: error channel clean {:?}, with the directory {:?}", clean.errs, pop.errs), case));
            }
            let cat = |o: &RunObs| o.family.iter().filter(|f| !f.0.ends_with(".gz")).flat_map(|f| f.1.clone()).collect::<Vec<u8>>();
            if name.contains("rCURRENT") && pop.listings != clean.listings {
                let i = pop.listings.iter().zip(clean.listings.iter()).position(|(a, b)| a != b).unwrap_or(0);
                return Some(Violation::new("listing-differs", key, format!("{ctx}: existing_log_files query #{i}: clean {:?}, with the directory {:?}", clean.listings.get(i), pop.listings.get(i)), case));
            }
            if clean.family.len() != pop.family.len() || cat(clean) != cat(&pop) {
                return Some(Violation::new(
                    "family-differs",
                    key,
                    format!("{ctx}: family in the clean directory {:?}, with the directory {:?}", clean.family.iter().map(|f| (&f.0, f.1.len())).collect::<Vec<_>>(), pop.family.iter().map(|f| (&f.0, f.1.len())).collect::<Vec<_>>()),
                    case,
                ));
            }
            None
        }
        Ran::Done(Err(e)) => Some(Violation::new("run-error", key, format!("{ctx}: {e}"), case)),
        Ran::Panicked(m) => Some(Violation::new("panic", key, format!("{ctx}: {m}"), case)),
        Ran::Hung => Some(Violation::new("hang", key, ctx, case)),
    }
}

fn replay(case: &Value) -> Vec<Violation> {
    let g = grid();
    let unit = case["unit"].as_u64().unwrap_or(0) as usize;
    let Some(c) = g.get(unit) else { return vec![] };
    if case["late_dir"].as_bool() == Some(true) {
        println!("replay C14: cfg={:?} restart_append={} a directory named like the original of a compressed file appears before the restart", c.cfg, c.restart_append);
        let cc = c.clone();
        let cc2 = c.clone();
        let key = format!("directory-named-like-the-original-of-a-compressed-file/{}/gz", c.cfg.naming().map_or("none", NamingK::short));
        return match (run_isolated(Duration::from_secs(30), move || run(&cc, &[])), run_isolated(Duration::from_secs(30), move || run2(&cc2, &[], true))) {
            (Ran::Done(Ok((clean, _))), Ran::Done(Ok((pop, before)))) => match compare(&clean, &pop, &before) {
                Ok(()) => vec![],
                Err(f) => vec![Violation::new(f.clause, key, f.detail, case.clone())],
            },
            other => vec![Violation::new("run-error", key, format!("{:?}", other.1), case.clone())],
        };
    }
    if let Some(t) = case["dir_in_the_way"].as_str() {
        println!("replay C14: cfg={:?} restart_append={} directory in the way: {t}", c.cfg, c.restart_append);
        let cc = c.clone();
        return match run_isolated(Duration::from_secs(30), move || run(&cc, &[])) {
            Ran::Done(Ok((clean, _))) => judge_dir(c, Box::leak(t.to_string().into_boxed_str()), &clean, case.clone()).into_iter().collect(),
            other => vec![Violation::new("clean-run-failed", "machinery", format!("{other:?}"), case.clone())],
        };
    }
    let all = near_misses(c.cfg.parts.suffix.is_some());
    let foreign: Vec<(&'static str, bool)> = case["set"]
        .as_array()
        .into_iter()
        .flatten()
        .filter_map(|n| all.iter().find(|a| Some(a.0) == n.as_str()).copied())
        .collect();
    println!("replay C14: cfg={:?} restart_append={} foreign={:?}", c.cfg, c.restart_append, foreign);
    let cc = c.clone();
    let clean = match run_isolated(Duration::from_secs(30), move || run(&cc, &[])) {
        Ran::Done(Ok((clean, _))) => clean,
        other => {
            println!("  the run in the clean directory failed: {other:?}");
            return vec![Violation::new("clean-run-failed", "machinery", format!("{other:?}"), case.clone())];
        }
    };
    judge(c, &foreign, &clean, case.clone()).into_iter().collect()
}
