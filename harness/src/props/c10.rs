//! C10 — logging operations never panic or hang, whatever the input or directory content.
//!
//! Bounded-exhaustive enumeration of adversarial inputs; every case runs on a fresh thread
//! inside catch_unwind with a watchdog; after every case an ordinary record must still be
//! written (catches a poisoned mutex).
use super::{default_cap, Prop};
use crate::capture::FdCapture;
use crate::env::Env;
use crate::fl::{HOp, Hist};
use crate::lg::{self, Cfg, CleanK, CritK, ModeK, NameParts, NamingK, NG};
use crate::rec::Recorder;
use crate::report::{Meta, Out, Violation};
use crate::scratch::Scratch;
use crate::{for_each_word, run_isolated, Ran};
use flexi_logger::writers::{SyslogConnection, SyslogFacility, SyslogLineHeader, SyslogWriter};
use flexi_logger::{Cleanup, Criterion, ErrorChannel, FileSpec, LogSpecification, Logger, Naming, WriteMode};
use log::{Level, LevelFilter, Log, Record};
use serde_json::{json, Value};
use std::sync::Mutex;
use std::time::Duration;

pub fn prop() -> Prop {
    Prop {
        id: "C10",
        meta,
        units,
        run_unit,
        replay,
        bounds,
        wall_cap_s: default_cap,
        max_workers: |_| 64,
    }
}

fn meta() -> Meta {
    Meta {
        id: "C10",
        level: "exploration",
        rule: "(i) every target string of <= 5 (quick) / 6 (thorough) tokens over {'{', '}', ',', a, e-acute, _Default, W} through Log::enabled and Log::log, with and without an additional writer; (ii) 6 message shapes x absent optional fields x key-values through 13 output kinds (the syslog writer over datagram, stream, UDP and TCP among them); (iii) specification strings: special inputs (the token sweep is C17's); (iv) basename {app, empty, a-umlaut-pp, a.b} x discriminant {none, d, e-acute} x suffix {log, none, l.g, a multi-byte one, restart-0000} x start time on/off x naming (6 schemes + custom formats of 4/10/20/30 characters and three with multi-byte characters, with and without current infix) x append on/off through start-W-R-W-restart-W-shutdown; (v) every single near-miss file name of C14's alphabet x naming x cleanup; (vi) recursive logging (1 and 2 levels deep) against 13 output kinds with and without text filter; (vii) write-mode parameters at their extremes; distinct_nontrivial = distinct cases whose input contains a brace, a multi-byte character, an empty part or a pre-existing file; (viii) recursive logging (a Display that logs) racing with set_new_spec under the controlled scheduler, all schedules with <= 2 / 3 preemptions (a deadlock among threads blocked for real is a verdict); and four rotating records followed by shutdown() with the background cleanup thread under the controlled scheduler; (v) also one directory with all near-miss names at once; (vii) also rotation parameters at their extremes, hostile TOML texts, and a broken stdout / stderr error channel with panic_if_error_channel_is_broken(false) in a child process; an error channel file that cannot be opened (its path is a directory / its directory does not exist) with something to report, in a child process with an 8 s watchdog",
        assumptions: vec![
            "documented panics are kept out of the alphabets (FileSpec::try_from on a path without file name, invalid strftime format strings, use_utc after local time was used)".into(),
            "a hang is a case that does not finish within 10 s".into(),
        ],
    }
}

struct Fail {
    clause: &'static str,
    cause: String,
    detail: String,
}

fn guard<T: Send + 'static>(class: &str, input: &str, f: impl FnOnce() -> Result<T, (String, String)> + Send + 'static) -> Result<T, Fail> {
    match run_isolated(Duration::from_secs(10), f) {
        Ran::Done(Ok(v)) => Ok(v),
        Ran::Done(Err((clause, d))) => Err(Fail {
            clause: if clause == "dead-after-case" { "dead-after-case" } else if clause == "silent-config-error" { "silent-config-error" } else { "case-error" },
            cause: format!("{class}/{clause}"),
            detail: format!("{input}: {d}"),
        }),
        Ran::Panicked(m) => {
            // source file + message class
            let file = m.split(':').next().unwrap_or("").rsplit('/').next().unwrap_or("").to_string();
            let mc = if m.contains("char boundary") {
                "char boundary"
            } else if m.contains("out of range") || m.contains("out of bounds") || m.contains("slice index") {
                "slice index"
            } else if m.contains("unwrap") {
                "unwrap"
            } else if m.contains("oison") {
                "poisoned"
            } else if m.contains("capacity must be non-zero") {
                "zero capacity"
            } else {
                "other"
            };
            Err(Fail {
                clause: "panic",
                cause: format!("{class}/{file}/{mc}"),
                detail: format!("{input}: {m}"),
            })
        }
        Ran::Hung => Err(Fail {
            clause: "hang",
            cause: class.to_string(),
            detail: format!("{input}: did not finish within 10 s"),
        }),
    }
}

// ---------------------------------------------------------------- (i) targets

const TTOK: [&str; 7] = ["{", "}", ",", "a", "é", "_Default", "W"];

fn target_case(target: String, with_writer: bool) -> Result<(), (String, String)> {
    let rec = Recorder::new(LevelFilter::Trace);
    let extra = Recorder::new(LevelFilter::Trace);
    let mut lb = Logger::with(LogSpecification::trace()).log_to_writer(Box::new(rec.clone())).error_channel(ErrorChannel::DevNull);
    if with_writer {
        lb = lb.add_writer("W", Box::new(extra));
    }
    let (logger, handle) = lb.build().map_err(|e| ("build".to_string(), e.to_string()))?;
    for l in [Level::Error, Level::Trace] {
        let _ = logger.enabled(&log::Metadata::builder().level(l).target(&target).build());
        logger.log(&Record::builder().args(format_args!("m")).level(l).target(&target).module_path(Some("m")).build());
    }
    rec.take();
    lg::log_info(&*logger, "still alive");
    if rec.take().len() != 1 {
        return Err(("dead-after-case".into(), "an ordinary record is no longer written".into()));
    }
    drop(handle);
    Ok(())
}

// ---------------------------------------------------------------- output kinds

#[derive(Clone, Copy, Debug, PartialEq, Eq)]
enum Kind {
    File(ModeK),
    Stdout(ModeK),
    Stderr(ModeK),
    Buffer,
    Syslog,
    Writer,
    Capture,
    SyslogTcp,
    SyslogStream,
    SyslogUdp,
}
const KINDS: [Kind; 13] = [
    Kind::File(ModeK::Direct),
    Kind::File(ModeK::BufDont(32)),
    Kind::File(ModeK::Async(1, 16, 0)),
    Kind::Stdout(ModeK::Direct),
    Kind::Stdout(ModeK::BufDont(32)),
    Kind::Stderr(ModeK::Direct),
    Kind::Buffer,
    Kind::Syslog,
    Kind::Writer,
    Kind::Capture,
    Kind::SyslogTcp,
    Kind::SyslogStream,
    Kind::SyslogUdp,
];

struct Built {
    logger: Box<dyn Log>,
    handle: flexi_logger::LoggerHandle,
    /// target to use so that the record reaches the output kind under test
    target: &'static str,
    _sock: Option<std::os::unix::net::UnixDatagram>,
    _udp: Option<std::net::UdpSocket>,
    _caps: Vec<FdCapture>,
    _sc: Scratch,
}

fn build_kind(k: Kind, env: &Env, spec: &str) -> Result<Built, (String, String)> {
    let sc = Scratch::new("c10k");
    let spec = LogSpecification::parse(spec).map_err(|e| ("build".to_string(), e.to_string()))?;
    let base = Logger::with(spec).error_channel(ErrorChannel::File(env.err.clone()));
    let mut sock = None;
    let mut udp = None;
    let mut caps = Vec::new();
    let mut target = "m";
    let lb = match k {
        Kind::File(m) => base.log_to_file(FileSpec::default().directory(&env.dir).basename("app").suppress_timestamp()).write_mode(m.write_mode()),
        Kind::Stdout(m) => {
            caps.extend(FdCapture::start(1, sc.path().join("out.txt")));
            base.log_to_stdout().write_mode(m.write_mode())
        }
        Kind::Stderr(m) => {
            caps.extend(FdCapture::start(2, sc.path().join("err.txt")));
            base.log_to_stderr().write_mode(m.write_mode())
        }
        Kind::Buffer => base.log_to_buffer(10_000, None),
        Kind::Writer => base.log_to_writer(Box::new(Recorder::new(LevelFilter::Trace))),
        Kind::Capture => {
            caps.extend(FdCapture::start(1, sc.path().join("out.txt")));
            base.log_to_stdout().write_mode(WriteMode::SupportCapture)
        }
        Kind::SyslogStream => {
            let p = sc.path().join("st.sock");
            let listener = std::os::unix::net::UnixListener::bind(&p).map_err(|e| ("machinery".to_string(), e.to_string()))?;
            std::thread::Builder::new()
                .name("fxv-syslog-sink".into())
                .spawn(move || {
                    if let Ok((mut c, _)) = listener.accept() {
                        let mut buf = [0u8; 4096];
                        while matches!(std::io::Read::read(&mut c, &mut buf), Ok(n) if n > 0) {}
                    }
                })
                .ok();
            let w = SyslogWriter::builder(SyslogConnection::try_stream(&p).map_err(|e| ("machinery".to_string(), e.to_string()))?, SyslogLineHeader::Rfc5424("id".into()), SyslogFacility::LocalUse0)
                .max_log_level(LevelFilter::Trace)
                .build()
                .map_err(|e| ("machinery".to_string(), e.to_string()))?;
            target = "{S}";
            base.do_not_log().add_writer("S", w)
        }
        Kind::SyslogUdp => {
            let server = std::net::UdpSocket::bind("127.0.0.1:0").map_err(|e| ("machinery".to_string(), e.to_string()))?;
            let addr = server.local_addr().map_err(|e| ("machinery".to_string(), e.to_string()))?;
            server.set_nonblocking(true).ok();
            let w = SyslogWriter::builder(SyslogConnection::try_udp("127.0.0.1:0".parse::<std::net::SocketAddr>().unwrap(), addr).map_err(|e| ("machinery".to_string(), e.to_string()))?, SyslogLineHeader::Rfc3164, SyslogFacility::LocalUse0)
                .max_log_level(LevelFilter::Trace)
                .build()
                .map_err(|e| ("machinery".to_string(), e.to_string()))?;
            udp = Some(server);
            target = "{S}";
            base.do_not_log().add_writer("S", w)
        }
        Kind::SyslogTcp => {
            // a listener on the loopback interface that reads and discards
            let listener = std::net::TcpListener::bind("127.0.0.1:0").map_err(|e| ("machinery".to_string(), e.to_string()))?;
            let addr = listener.local_addr().map_err(|e| ("machinery".to_string(), e.to_string()))?;
            std::thread::Builder::new()
                .name("fxv-syslog-sink".into())
                .spawn(move || {
                    if let Ok((mut c, _)) = listener.accept() {
                        let mut buf = [0u8; 4096];
                        while matches!(std::io::Read::read(&mut c, &mut buf), Ok(n) if n > 0) {}
                    }
                })
                .ok();
            let w = SyslogWriter::builder(SyslogConnection::try_tcp(addr).map_err(|e| ("machinery".to_string(), e.to_string()))?, SyslogLineHeader::Rfc3164, SyslogFacility::LocalUse0)
                .max_log_level(LevelFilter::Trace)
                .build()
                .map_err(|e| ("machinery".to_string(), e.to_string()))?;
            target = "{S}";
            base.do_not_log().add_writer("S", w)
        }
        Kind::Syslog => {
            let p = sc.path().join("s.sock");
            let s = std::os::unix::net::UnixDatagram::bind(&p).map_err(|e| ("machinery".to_string(), e.to_string()))?;
            s.set_nonblocking(true).ok();
            let w = SyslogWriter::builder(SyslogConnection::try_datagram(&p).map_err(|e| ("machinery".to_string(), e.to_string()))?, SyslogLineHeader::Rfc5424("id".into()), SyslogFacility::LocalUse0)
                .max_log_level(LevelFilter::Trace)
                .build()
                .map_err(|e| ("machinery".to_string(), e.to_string()))?;
            sock = Some(s);
            target = "{S}";
            base.do_not_log().add_writer("S", w)
        }
    };
    let (logger, handle) = lb.build().map_err(|e| ("build".to_string(), e.to_string()))?;
    Ok(Built {
        logger,
        handle,
        target,
        _sock: sock,
        _udp: udp,
        _caps: caps,
        _sc: sc,
    })
}

fn finish(b: Built) {
    b.handle.shutdown();
    drop(b.logger);
    drop(b.handle);
    for c in b._caps {
        c.finish();
    }
}

// ---------------------------------------------------------------- (ii) records

fn messages() -> Vec<String> {
    vec![String::new(), "line1\nline2\r\n".into(), "é€😀\u{0}".into(), "y".repeat(64 * 1024), "{} {0} {:?}".into(), "S".into()]
}

fn record_case(k: Kind, msg: String, fields: u8, kv: bool) -> Result<(), (String, String)> {
    let env = Env::new("c10r");
    env.enter();
    let b = build_kind(k, &env, "trace")?;
    let pairs: Vec<(&str, log::kv::Value)> = if kv { vec![("k", log::kv::Value::from("v\n")), ("é", log::kv::Value::from(1.5))] } else { vec![] };
    for level in [Level::Error, Level::Trace] {
        b.logger.log(
            &Record::builder()
                .args(format_args!("{msg}"))
                .level(level)
                .target(b.target)
                .module_path(if fields & 1 != 0 { Some("m") } else { None })
                .file(if fields & 2 != 0 { Some("f.rs") } else { None })
                .line(if fields & 4 != 0 { Some(u32::MAX) } else { None })
                .key_values(&pairs)
                .build(),
        );
    }
    b.logger.flush();
    lg::log_to(&*b.logger, Level::Info, b.target, "still alive");
    finish(b);
    env.leave();
    Ok(())
}

// ---------------------------------------------------------------- (vi) recursion

static INNER: Mutex<Option<(&'static dyn Log, &'static str, u8)>> = Mutex::new(None);
struct Talk(u8);
impl std::fmt::Display for Talk {
    fn fmt(&self, f: &mut std::fmt::Formatter<'_>) -> std::fmt::Result {
        let x = *INNER.lock().unwrap();
        if let Some((l, target, depth)) = x {
            if self.0 < depth {
                let next = Talk(self.0 + 1);
                l.log(&Record::builder().args(format_args!("inner {} {}", self.0, next)).level(Level::Warn).target(target).module_path(Some("m")).build());
            }
        }
        write!(f, "t{}", self.0)
    }
}

fn recursion_case(k: Kind, depth: u8, filter: bool) -> Result<(), (String, String)> {
    let env = Env::new("c10x");
    env.enter();
    let b = build_kind(k, &env, if filter { "trace/t" } else { "trace" })?;
    let target = b.target;
    let logger: &'static dyn Log = Box::leak(b.logger);
    *INNER.lock().unwrap() = Some((logger, target, depth));
    logger.log(&Record::builder().args(format_args!("outer {}", Talk(0))).level(Level::Info).target(target).module_path(Some("m")).build());
    *INNER.lock().unwrap() = None;
    logger.log(&Record::builder().args(format_args!("still alive t")).level(Level::Info).target(target).module_path(Some("m")).build());
    b.handle.shutdown();
    for c in b._caps {
        c.finish();
    }
    env.leave();
    Ok(())
}

// ---------------------------------------------------------------- (iv) file configurations

fn namings() -> Vec<(String, Naming)> {
    let mut v: Vec<(String, Naming)> = NG.iter().map(|n| (n.short().to_string(), n.naming())).collect();
    for (name, fmt) in [("c4", "%H%M"), ("c10", "%Y-%m-%d"), ("c20", "r%Y-%m-%d_%H-%M-%S"), ("c30", "%Y-%m-%d_%H-%M-%S_%Y-%m-%d"), ("r4", "r%j"), ("dot", "%Y.%m.%d_%H.%M.%S"), ("cjk", "%Y年%m月%d日%H時%M分%S秒"), ("mid", "%Y-%m-%d_%H-%M-%S·%3f"), ("c16é", "r%Y-%m-%d_%H-%Mé"), ("badspec", "r%Y-%Q_%H"), ("trailing%", "r%Y-%m-%d_%"), ("literal", "current"), ("offset", "r%Y-%m-%d_%H-%M-%S%z"), ("zone", "r%Y%m%d%H%M%S%:z")] {
        v.push((format!("{name}+cur"), Naming::TimestampsCustomFormat { current_infix: Some("cur"), format: fmt }));
        v.push((format!("{name}+direct"), Naming::TimestampsCustomFormat { current_infix: None, format: fmt }));
        v.push((format!("{name}+emptycur"), Naming::TimestampsCustomFormat { current_infix: Some(""), format: fmt }));
    }
    v
}

fn fileconfig_case(basename: &str, discr: Option<&str>, suffix: Option<&str>, starttime: bool, naming: Naming, append: bool) -> Result<(), (String, String)> {
    let env = Env::new("c10f");
    env.enter();
    let fs = FileSpec::default().directory(&env.dir).basename(basename).o_discriminant(discr).o_suffix(suffix).use_timestamp(starttime);
    let mk = |append: bool| {
        Logger::with(LogSpecification::trace())
            .log_to_file(fs.clone())
            .format(lg::payload_format)
            .rotate(Criterion::Size(15), naming, Cleanup::KeepLogFiles(2))
            .cleanup_in_background_thread(false)
            .o_append(append)
            .error_channel(ErrorChannel::File(env.err.clone()))
            .build()
    };
    let (logger, handle) = match mk(append) {
        Ok(x) => x,
        // a format that is not a strftime format: an error from build() is the right answer
        Err(_) if matches!(naming, Naming::TimestampsCustomFormat { format, .. } if format.ends_with('%') || format.contains("%Q")) => {
            env.leave();
            return Ok(());
        }
        Err(e) => return Err(("build".to_string(), e.to_string())),
    };
    lg::log_info(&*logger, "first record of run one");
    handle.trigger_rotation().ok();
    lg::log_info(&*logger, "second record of run one");
    let _ = handle.existing_log_files(&flexi_logger::LogfileSelector::default().with_r_current().with_compressed_files());
    handle.shutdown();
    drop(logger);
    drop(handle);
    env.clock.advance_secs(1);
    let (logger, handle) = mk(append).map_err(|e| ("build".to_string(), e.to_string()))?;
    lg::log_info(&*logger, "first record of run two");
    lg::log_info(&*logger, "second record of run two");
    handle.shutdown();
    drop(logger);
    drop(handle);
    env.leave();
    // logging continued: the last record is in some file
    let mut found = false;
    for n in crate::family::list_names(&env.dir) {
        if std::fs::read(env.dir.join(&n)).is_ok_and(|c| String::from_utf8_lossy(&c).contains("second record of run two")) {
            found = true;
        }
    }
    if !found {
        return Err(("dead-after-case".into(), format!("the last record is in no file; files {:?}; error channel {:?}", crate::family::list_names(&env.dir), env.errlines())));
    }
    Ok(())
}

// ---------------------------------------------------------------- (v) pre-populated directories

const NEAR: [&str; 26] = [
    "app", "appé.log", "app_.log", "app_r.log", "app_r1.log", "app_r12.log", "app_rX.log", "app_r00001_old.log", "app_r00001.log.gz.gz", "app_r2024.log",
    "app_r9999-99-99_99-99-99.log", "app_r2024-05-15_12-30-10.restart-", "app_r2024-05-15_12-30-10.restart-abcd.log", "app_r2024-05-15_12-30-10.restart-99999.log",
    "app_rCURRENT.log.gz", "app_r4294967296.log", "app_r4294967295.log", "app_r4294967294.log", "app_r99999.log", "app_r100000.log", "app_é.log", "app_r\u{0301}.log", "app_r0000é.log", "app_r00000.log.gz",
    // local times that do not exist / exist twice in the zone the check runs in (Europe/Berlin)
    "app_r2021-03-28_02-30-00.log", "app_r2023-10-29_02-30-00.log",
];

/// name "*": every near-miss name at once, plus non-padded and long numbers and digit/letter
/// endings of different lengths (a crowded directory for the sorting and listing code)
fn prepop_case(name: &str, naming: NamingK, clean: CleanK, append: bool, as_dir: bool) -> Result<(), (String, String)> {
    let env = Env::new("c10p");
    if name == "*" {
        for n in NEAR {
            if !n.contains("4294967") {
                std::fs::write(env.dir.join(n), b"pre-existing\n").ok();
            }
        }
        for n in ["app_r7bak.log", "app_r7.log", "app_r77.log", "app_r777bak.log", "app_r123456.log", "app_r1234567.log", "app_r12345678x.log", "app_r9.log", "app_rx9.log", "app_r00001x.log", "app_r000012.log", "app_r0000123y.log", "app_r5.log", "app_r55z.log", "app_r555.log", "app_r5555q.log", "app_r2.log", "app_r22.log", "app_r222w.log", "app_r2222.log"] {
            std::fs::write(env.dir.join(n), b"pre-existing\n").ok();
        }
    }
    let p = env.dir.join(if name == "*" { "app_extra" } else { name });
    if as_dir {
        std::fs::create_dir_all(&p).ok();
    } else {
        std::fs::write(&p, b"pre-existing\n").ok();
    }
    env.enter();
    let mut cfg = Cfg::rot(CritK::Size(15), naming, clean);
    cfg.append = append;
    let mut h = Hist::new(&env, cfg);
    for op in [HOp::W(20), HOp::W(20), HOp::R, HOp::W(20), HOp::Restart(append), HOp::W(20), HOp::W(20)] {
        h.apply(op).map_err(|e| ("op-error".to_string(), format!("{e:?}")))?;
        if let Some(l) = h.live.as_ref() {
            let _ = l.handle.existing_log_files(&flexi_logger::LogfileSelector::default().with_r_current().with_compressed_files());
        }
    }
    h.stop();
    let last = h.accepted.last().cloned().unwrap_or_default();
    drop(h);
    env.leave();
    let mut found = false;
    for n in crate::family::list_names(&env.dir) {
        if std::fs::read(env.dir.join(&n)).is_ok_and(|c| c.ends_with(&last)) {
            found = true;
        }
    }
    if !found {
        return Err(("dead-after-case".into(), format!("the last record is in no file; files {:?}; error channel {:?}", crate::family::list_names(&env.dir), env.errlines())));
    }
    Ok(())
}

// ---------------------------------------------------------------- (vii) write-mode extremes

fn toml_inputs() -> Vec<String> {
    let mut v: Vec<String> = [
        "",
        "global_level = 5",
        "global_level = 'info'\nglobal_level = 'warn'",
        "global_level = ['info']",
        "global_level = ''",
        "global_level = 'bogus'",
        "global_pattern = 3",
        "global_pattern = '('",
        "global_pattern = 'x'\n[modules]",
        "[modules]\n'a' = 7",
        "[modules]\n'a' = 'wrong'",
        "[modules]\n'' = 'info'",
        "[modules]\n'a' = { b = 'info' }",
        "[modules.a]\nb = 'info'",
        "modules = 'info'",
        "modules = []",
        "[[modules]]\na = 'info'",
        "[other]\nx = 1",
        "global_level = 'info'\n[modules]\n'é::ü' = 'trace'\n\"a b\" = 'debug'",
        "\u{0}",
        "= = =",
        "[modules",
        "global_level = 'info' # comment\n\n\n",
        "GLOBAL_LEVEL = 'info'",
    ]
    .iter()
    .map(|s| (*s).to_string())
    .collect();
    v.push(format!("[modules]\n{}", (0..3000).map(|i| format!("'m{i}' = 'info'\n")).collect::<String>()));
    v.push(format!("global_level = '{}'", "x".repeat(100_000)));
    v.push(format!("{}x = 1", "[a]\n".repeat(1)));
    v.push("[".repeat(5000));
    v
}

fn toml_case(t: &str) -> Result<(), (String, String)> {
    let _ = LogSpecification::from_toml(t);
    // the same text as a specfile that exists when the logger starts
    let sc = Scratch::new("c10t");
    let path = sc.path().join("spec.toml");
    std::fs::write(&path, t).map_err(|e| ("machinery".to_string(), e.to_string()))?;
    let rec = Recorder::new(LevelFilter::Trace);
    match Logger::with(LogSpecification::info()).log_to_writer(Box::new(rec)).error_channel(ErrorChannel::DevNull).build_with_specfile(&path) {
        Err(_) => {}
        Ok((logger, handle)) => {
            lg::log_info(&*logger, "still alive");
            drop(handle);
            drop(logger);
        }
    }
    Ok(())
}

/// The error channel is stdout / stderr, that stream is a full device, and the caller has asked
/// not to panic when the error channel is broken: a log call that has something to report (an
/// unknown writer name) comes back.
/// (the setting is taken from the first logger that is built in a process: a fresh child process)
fn errchan_case(i: usize) -> Result<(), (String, String)> {
    let exe = std::env::current_exe().map_err(|e| ("machinery".to_string(), e.to_string()))?;
    let sc = Scratch::new("c10ec");
    let (so, se) = (sc.path().join("out.txt"), sc.path().join("err.txt"));
    let mut ch = std::process::Command::new(exe)
        .args(["child", "c10errchan", &i.to_string()])
        .arg(sc.path())
        .stdout(std::fs::File::create(&so).map_err(|e| ("machinery".to_string(), e.to_string()))?)
        .stderr(std::fs::File::create(&se).map_err(|e| ("machinery".to_string(), e.to_string()))?)
        .spawn()
        .map_err(|e| ("machinery".to_string(), e.to_string()))?;
    let t0 = std::time::Instant::now();
    let status = loop {
        match ch.try_wait() {
            Ok(Some(st)) => break Some(st),
            Ok(None) if t0.elapsed() > std::time::Duration::from_secs(8) => {
                ch.kill().ok();
                ch.wait().ok();
                break None;
            }
            Ok(None) => std::thread::sleep(std::time::Duration::from_millis(5)),
            Err(e) => return Err(("machinery".to_string(), e.to_string())),
        }
    };
    let out = std::fs::read_to_string(&so).unwrap_or_default();
    let err = std::fs::read_to_string(&se).unwrap_or_default();
    match status {
        None => Err(("hang".to_string(), "the child process did not come back from two log calls within 8 s (killed)".to_string())),
        Some(st) if st.success() => Ok(()),
        Some(_) => Err(("panic".to_string(), format!("child process: {} {}", out.chars().take(300).collect::<String>(), err.chars().rev().take(400).collect::<String>().chars().rev().collect::<String>()))),
    }
}

/// `fxv child c10errchan <i>`
pub fn child_errchan(args: &[String]) -> i32 {
    let i: usize = args.first().and_then(|a| a.parse().ok()).unwrap_or(0);
    match std::panic::catch_unwind(|| errchan_in_process(i)) {
        Ok(Ok(())) => 0,
        Ok(Err((c, d))) => {
            println!("{c}: {d}");
            1
        }
        Err(_) => {
            println!("panicked");
            1
        }
    }
}

fn errchan_in_process(i: usize) -> Result<(), (String, String)> {
    if i >= 2 {
        return errchan_file_in_process(i);
    }
    let (chan, fd) = if i % 2 == 0 { (ErrorChannel::StdOut, 1) } else { (ErrorChannel::StdErr, 2) };
    let rec = Recorder::new(LevelFilter::Trace);
    let (logger, handle) = Logger::with(LogSpecification::trace())
        .log_to_writer(Box::new(rec))
        .error_channel(chan)
        .panic_if_error_channel_is_broken(false)
        .build()
        .map_err(|e| ("build".to_string(), e.to_string()))?;
    let full = FdCapture::start(fd, std::path::PathBuf::from("/dev/full"));
    let r = std::panic::catch_unwind(std::panic::AssertUnwindSafe(|| {
        lg::log_to(&*logger, Level::Error, "{NoSuchWriter,_Default}", "to an unknown writer");
        lg::log_to(&*logger, Level::Error, "{NoSuchWriter}", "to an unknown writer only");
    }));
    if let Some(c) = full {
        c.restore();
    }
    drop(handle);
    drop(logger);
    match r {
        Ok(()) => Ok(()),
        Err(p) => std::panic::resume_unwind(p),
    }
}

/// The error channel is a file that cannot be opened (2: its path is a directory, 3: its directory
/// does not exist), and there is something to report, twice: the log calls come back (the
/// messages go to stderr instead).
fn errchan_file_in_process(i: usize) -> Result<(), (String, String)> {
    let dir = std::env::args().nth(4).map(std::path::PathBuf::from).unwrap_or_else(std::env::temp_dir);
    let path = if i == 2 {
        let p = dir.join("errors.log");
        std::fs::create_dir_all(&p).ok();
        p
    } else {
        dir.join("no-such-directory").join("errors.log")
    };
    let rec = Recorder::new(LevelFilter::Trace);
    let (logger, handle) = Logger::with(LogSpecification::trace())
        .log_to_writer(Box::new(rec))
        .error_channel(ErrorChannel::File(path))
        .build()
        .map_err(|e| ("build".to_string(), e.to_string()))?;
    lg::log_to(&*logger, Level::Error, "{NoSuchWriter,_Default}", "to an unknown writer");
    lg::log_to(&*logger, Level::Error, "{NoSuchWriter}", "to an unknown writer only");
    lg::log_to(&*logger, Level::Info, "app", "an ordinary record");
    drop(handle);
    drop(logger);
    Ok(())
}

/// Rotation parameters at their extremes: W R W W restart W shutdown must come back (a
/// configuration problem reported as Err by build() is fine).
fn rotation_extremes_case(i: usize) -> Result<(), (String, String)> {
    let cleanups = [
        Cleanup::KeepLogFiles(usize::MAX),
        Cleanup::KeepCompressedFiles(usize::MAX),
        Cleanup::KeepLogAndCompressedFiles(usize::MAX, usize::MAX),
        Cleanup::KeepLogAndCompressedFiles(usize::MAX, 1),
        Cleanup::KeepLogAndCompressedFiles(1, usize::MAX),
        Cleanup::KeepLogAndCompressedFiles(0, 0),
    ];
    let criteria = [Criterion::Size(0), Criterion::Size(u64::MAX), Criterion::AgeOrSize(flexi_logger::Age::Day, u64::MAX), Criterion::AgeOrSize(flexi_logger::Age::Second, 0)];
    let cleanup = cleanups[i % cleanups.len()];
    let criterion = criteria[(i / cleanups.len()) % criteria.len()];
    let naming = [Naming::Numbers, Naming::TimestampsDirect][(i / (cleanups.len() * criteria.len())) % 2];
    let env = Env::new("c10e");
    env.enter();
    let mk = || {
        Logger::with(LogSpecification::trace())
            .log_to_file(FileSpec::default().directory(&env.dir).basename("app").suppress_timestamp())
            .format(lg::payload_format)
            .rotate(criterion, naming, cleanup)
            .cleanup_in_background_thread(false)
            .append()
            .error_channel(ErrorChannel::File(env.err.clone()))
            .build()
    };
    for run in 0..2 {
        match mk() {
            Err(_) => break,
            Ok((logger, handle)) => {
                lg::log_info(&*logger, &format!("run {run} record one"));
                handle.trigger_rotation().ok();
                lg::log_info(&*logger, &format!("run {run} record two"));
                lg::log_info(&*logger, &format!("run {run} record three"));
                handle.shutdown();
                drop(logger);
                drop(handle);
            }
        }
    }
    env.leave();
    Ok(())
}
const N_ROTATION_EXTREMES: usize = 6 * 4 * 2;

fn writemode_case(i: usize) -> Result<(), (String, String)> {
    let modes = [
        WriteMode::AsyncWith { pool_capa: 0, message_capa: 0, flush_interval: Duration::from_secs(0) },
        WriteMode::AsyncWith { pool_capa: 1, message_capa: 0, flush_interval: Duration::from_millis(1) },
        WriteMode::BufferDontFlushWith(0),
        WriteMode::BufferAndFlushWith(0, Duration::from_millis(1)),
        WriteMode::BufferAndFlushWith(1, Duration::from_secs(0)),
        WriteMode::Async,
        WriteMode::SupportCapture,
    ];
    let m = modes[i % modes.len()];
    let to_file = i / modes.len() == 0;
    let env = Env::new("c10w");
    // timer threads run free here (they flush): no virtual tick parking
    env.ctx.ticks.lock().unwrap().park = false;
    env.enter();
    let sc = Scratch::new("c10wc");
    let mut caps = Vec::new();
    let lb = Logger::with(LogSpecification::trace()).error_channel(ErrorChannel::File(env.err.clone())).write_mode(m);
    let lb = if to_file {
        lb.log_to_file(FileSpec::default().directory(&env.dir).basename("app").suppress_timestamp())
    } else {
        caps.extend(FdCapture::start(1, sc.path().join("o.txt")));
        lb.log_to_stdout()
    };
    let r = lb.build();
    let res = match r {
        Err(_) => Ok(()), // a configuration problem reported as Err is fine
        Ok((logger, handle)) => {
            for i in 0..5 {
                lg::log_info(&*logger, &format!("rec {i}"));
            }
            handle.flush();
            std::thread::sleep(Duration::from_millis(5));
            handle.shutdown();
            drop(logger);
            drop(handle);
            Ok(())
        }
    };
    for c in caps {
        c.finish();
    }
    env.leave();
    res
}

// ---------------------------------------------------------------- units

const BASENAMES: [&str; 4] = ["app", "", "äpp", "a.b"];
const DISCRS: [Option<&str>; 3] = [None, Some("d"), Some("é")];
const SUFFIXES: [Option<&str>; 5] = [Some("log"), None, Some("l.g"), Some("ログ"), Some("restart-0000")];

fn n_target_units() -> usize {
    TTOK.len() + 1
}
fn n_record_units() -> usize {
    KINDS.len()
}
fn n_rec_units() -> usize {
    KINDS.len()
}
fn n_file_units() -> usize {
    namings().len()
}
fn n_prepop_units() -> usize {
    NG.len()
}
fn units(_tier: &str) -> usize {
    n_target_units() + n_record_units() + n_rec_units() + n_file_units() + n_prepop_units() + 1 + 1
}

// ---------------------------------------------------------------- (viii) recursive logging while the specification changes

struct Talkative {
    inner: std::sync::Arc<Box<dyn Log>>,
    sched: std::sync::Arc<crate::sched::Sched>,
}
impl std::fmt::Display for Talkative {
    fn fmt(&self, f: &mut std::fmt::Formatter<'_>) -> std::fmt::Result {
        // user code that runs inside a log call: a scheduling point, then a nested log call
        self.sched.sync_op(flexi_logger::verif_hooks::Op::Point("user_display"));
        self.inner.log(&log::Record::builder().args(format_args!("inner")).level(log::Level::Info).target("t").module_path(Some("t")).build());
        write!(f, "talkative")
    }
}

/// Rotations in quick succession, then shutdown, with the cleanup in its background thread: every
/// schedule (<= 2 / 3 preemptions) must let shutdown() return. A cleanup thread that misses the
/// request to end (or waits for something no hook announces) shows as a deadlock.
fn shutdown_with_pending_cleanup(tier: &str, out: &mut Out) {
    use crate::sched::{self, Abort, SchedCfg};
    use std::sync::Arc;
    let cfg = SchedCfg {
        ignore: vec!["flw_pool_pop", "flw_pool_push", "std_pool_pop", "std_pool_push", "open", "rename", "symlink_remove", "symlink_create", "write", "flush", "cleanup_remove"],
        detect_real_blocking: true,
        ..SchedCfg::default()
    };
    let body: Arc<dyn Fn(&Arc<sched::Sched>) -> Result<(), String> + Send + Sync> = Arc::new(move |_s: &Arc<sched::Sched>| {
        let env = Env::in_current("c10c");
        let mut cfg = Cfg::rot(CritK::Size(15), NamingK::Numbers, CleanK::Log(1));
        cfg.bg_cleanup = true;
        let (logger, handle) = cfg.logger(&env.dir, &env.err).build().map_err(|e| e.to_string())?;
        for i in 0..4 {
            lg::log_info(&*logger, &lg::payload(0, i, 19));
        }
        handle.shutdown();
        drop(logger);
        drop(handle);
        Ok(())
    });
    let mut bad: Option<(String, Vec<usize>)> = None;
    let mut machinery: Option<String> = None;
    let clock = || Some(crate::hooks::VClock::new(crate::hooks::base_instant()));
    let stats = sched::explore(&cfg, Some(if tier == "quick" { 2 } else { 3 }), 50_000, &clock, body, &mut |choices, ex| {
        if ex.stalled {
            machinery = Some(format!("execution stalled; schedule {choices:?}"));
            return false;
        }
        match (&ex.abort, &ex.obs) {
            (Some(Abort::Diverged(m)), _) => {
                machinery = Some(format!("replay diverged: {m}; schedule {choices:?}"));
                false
            }
            (Some(Abort::Deadlock(d)), _) => {
                bad = Some((format!("deadlock: {d}"), choices.to_vec()));
                false
            }
            (None, Some(Err(e))) => {
                bad = Some((e.clone(), choices.to_vec()));
                false
            }
            _ => true,
        }
    });
    out.evaluations += stats.schedules;
    out.transitions += stats.choice_points;
    out.count("shutdown_with_pending_cleanup_schedules", stats.schedules);
    out.nontrivial(&("sched-cleanup-shutdown", 0));
    if let Some(m) = machinery {
        out.violation(Violation::new("machinery", "scheduler", format!("rotations then shutdown with background cleanup: {m}"), json!({"kind": "sched-cleanup-shutdown"})));
    } else if let Some((d, sch)) = bad {
        out.outcome("hang");
        out.violation(Violation::new("hang", "shutdown-with-pending-cleanup".to_string(), format!("four rotating records, then shutdown(), cleanup in the background thread; schedule {sch:?}: {d}"), json!({"kind": "sched-cleanup-shutdown", "schedule": sch})));
    } else {
        out.outcome("ok");
    }
}

/// One thread logs a record whose Display implementation logs itself, another thread changes the
/// specification: every schedule (<= 2 preemptions) must let both finish. A lock held across the
/// user's formatting code shows as a deadlock (the scheduler sees both threads blocked for real).
fn recursion_vs_reconfiguration(tier: &str, out: &mut Out) {
    use crate::sched::{self, Abort, SchedCfg};
    use std::sync::Arc;
    for kind in [false, true] {
        let cfg = SchedCfg {
            ignore: vec!["flw_pool_pop", "flw_pool_push", "std_pool_pop", "std_pool_push", "open", "rename", "cleanup_list", "symlink_remove", "symlink_create", "write", "flush"],
            detect_real_blocking: true,
            ..SchedCfg::default()
        };
        let body: Arc<dyn Fn(&Arc<sched::Sched>) -> Result<(), String> + Send + Sync> = Arc::new(move |s: &Arc<sched::Sched>| {
            let env = Env::in_current("c10s");
            let lb = Logger::with(LogSpecification::info()).format(lg::payload_format).error_channel(ErrorChannel::File(env.err.clone()));
            let lb = if kind {
                lb.log_to_file(FileSpec::default().directory(&env.dir).basename("app").suppress_timestamp())
            } else {
                lb.log_to_writer(Box::new(Recorder::new(LevelFilter::Trace)))
            };
            let (logger, handle) = lb.build().map_err(|e| e.to_string())?;
            let logger: Arc<Box<dyn Log>> = Arc::new(logger);
            let (la, sa) = (Arc::clone(&logger), Arc::clone(s));
            let ja = s.spawn("logging", move || {
                let t = Talkative {
                    inner: Arc::clone(&la),
                    sched: sa,
                };
                la.log(&log::Record::builder().args(format_args!("outer says {t}")).level(log::Level::Info).target("t").module_path(Some("t")).build());
            });
            let h2 = handle.clone();
            let jb = s.spawn("changing", move || {
                h2.set_new_spec(LogSpecification::debug());
                drop(h2);
            });
            s.join(ja);
            s.join(jb);
            handle.shutdown();
            drop(logger);
            Ok(())
        });
        let mut bad: Option<(String, Vec<usize>)> = None;
        let mut machinery: Option<String> = None;
        let clock = || Some(crate::hooks::VClock::new(crate::hooks::base_instant()));
        let stats = sched::explore(&cfg, Some(if tier == "quick" { 2 } else { 3 }), 50_000, &clock, body, &mut |choices, ex| {
            if ex.stalled {
                machinery = Some(format!("execution stalled; schedule {choices:?}"));
                return false;
            }
            match (&ex.abort, &ex.obs) {
                (Some(Abort::Diverged(m)), _) => {
                    machinery = Some(format!("replay diverged: {m}; schedule {choices:?}"));
                    false
                }
                (Some(Abort::Deadlock(d)), _) => {
                    bad = Some((format!("deadlock: {d}"), choices.to_vec()));
                    false
                }
                (None, Some(Err(e))) => {
                    bad = Some((e.clone(), choices.to_vec()));
                    false
                }
                _ => true,
            }
        });
        out.evaluations += stats.schedules;
        out.transitions += stats.choice_points;
        out.count("recursion_vs_reconfiguration_schedules", stats.schedules);
        out.nontrivial(&("sched-recursion", kind));
        let what = if kind { "file" } else { "custom-writer" };
        if let Some(m) = machinery {
            out.violation(Violation::new("machinery", "scheduler", format!("recursive logging vs set_new_spec ({what}): {m}"), json!({"kind": "sched-recursion"})));
        } else if let Some((d, sch)) = bad {
            out.outcome("hang");
            out.violation(Violation::new("hang", format!("recursive-logging-vs-set_new_spec/{what}"), format!("one thread logs a record whose Display implementation logs, another calls set_new_spec; schedule {sch:?}: {d}"), json!({"kind": "sched-recursion", "schedule": sch})));
        } else {
            out.outcome("ok");
        }
    }
}
fn bounds(_tier: &str) -> Value {
    json!({"target_strings": crate::word_count(TTOK.len(), 4) * 2, "output_kinds": KINDS.len(), "messages": messages().len(), "file_configurations": BASENAMES.len() * DISCRS.len() * SUFFIXES.len() * 2 * 2 * namings().len(), "near_miss_names": NEAR.len()})
}

fn record(out: &mut Out, r: Result<(), Fail>, case: Value, nontrivial_key: Option<String>) {
    out.evaluations += 1;
    match r {
        Ok(()) => {
            if let Some(k) = nontrivial_key {
                out.nontrivial(&k);
            }
            out.outcome("ok");
        }
        Err(f) => {
            out.outcome(f.clause);
            out.violation(Violation::new(f.clause, f.cause, f.detail, case));
        }
    }
}

fn run_unit(tier: &str, unit: usize, out: &mut Out) {
    // a zone with daylight saving time: file names can denote local times that do not exist
    std::env::set_var("TZ", "Europe/Berlin");
    let tlen = if tier == "quick" { 4 } else { 5 };
    let mut u = unit;
    if u < n_target_units() {
        let run = |w: &[usize], out: &mut Out| {
            let t: String = w.iter().map(|i| TTOK[*i]).collect();
            for with_writer in [false, true] {
                let tt = t.clone();
                let class = format!("target/{}", if with_writer { "with-writer" } else { "no-writer" });
                let r = guard(&class, &format!("target {t:?}"), move || target_case(tt, with_writer));
                let nt = if t.contains('{') || t.contains('é') { Some(format!("t{with_writer}{t}")) } else { None };
                record(out, r, json!({"kind": "target", "target": t, "with_writer": with_writer}), nt);
            }
        };
        if u == 0 {
            for_each_word(TTOK.len(), 1, |w| run(w, out));
        } else {
            let first = u - 1;
            for_each_word(TTOK.len(), tlen, |rest| {
                if rest.is_empty() {
                    return;
                }
                let mut w = vec![first];
                w.extend_from_slice(rest);
                run(&w, out);
            });
        }
        if u == 1 {
            out.sample(json!({"target_strings": ["{", "{é", "{W,_Default}", "{{,}}"], "through": "Log::enabled and Log::log"}));
        }
        return;
    }
    u -= n_target_units();
    if u < n_record_units() {
        let k = KINDS[u];
        for (mi, msg) in messages().into_iter().enumerate() {
            for fields in [0u8, 7, 2] {
                for kv in [false, true] {
                    let m2 = msg.clone();
                    let r = guard(&format!("record/{k:?}"), &format!("message #{mi} fields {fields} kv {kv}"), move || record_case(k, m2, fields, kv));
                    record(out, r, json!({"kind": "record", "out": u, "msg": mi, "fields": fields, "kv": kv}), Some(format!("r{u}{mi}{fields}{kv}")));
                }
            }
        }
        return;
    }
    u -= n_record_units();
    if u < n_rec_units() {
        let k = KINDS[u];
        for depth in [1u8, 2] {
            for filter in [false, true] {
                let r = guard(&format!("recursion/{k:?}"), &format!("recursive logging depth {depth} text filter {filter}"), move || recursion_case(k, depth, filter));
                record(out, r, json!({"kind": "recursion", "out": u, "depth": depth, "filter": filter}), Some(format!("x{u}{depth}{filter}")));
            }
        }
        if u == 0 {
            out.sample(json!({"recursive_logging": "a Display implementation that logs (1 and 2 levels deep)", "output_kinds": KINDS.iter().map(|k| format!("{k:?}")).collect::<Vec<_>>()}));
        }
        return;
    }
    u -= n_rec_units();
    if u < n_file_units() {
        let (nname, naming) = namings()[u].clone();
        for (bi, b) in BASENAMES.iter().enumerate() {
            for (di, d) in DISCRS.iter().enumerate() {
                for (si, s) in SUFFIXES.iter().enumerate() {
                    for starttime in [false, true] {
                        for append in [false, true] {
                            // degenerate: no name part at all and an empty current infix: the file
                            // name would be empty (a configuration problem that is reported)
                            if b.is_empty() && d.is_none() && s.is_none() && !starttime && nname.ends_with("emptycur") {
                                continue;
                            }
                            let (b2, d2, s2) = (b.to_string(), d.map(String::from), s.map(String::from));
                            let input = format!("basename {b:?} discriminant {d:?} suffix {s:?} starttime {starttime} naming {nname} append {append}");
                            let class = format!("fileconfig/{nname}/append:{append}");
                            let r = guard(&class, &input, move || fileconfig_case(&b2, d2.as_deref(), s2.as_deref(), starttime, naming, append));
                            record(out, r, json!({"kind": "fileconfig", "naming": u, "b": bi, "d": di, "s": si, "starttime": starttime, "append": append}), Some(input));
                        }
                    }
                }
            }
        }
        return;
    }
    u -= n_file_units();
    if u < n_prepop_units() {
        let naming = NG[u];
        for (ni, name) in NEAR.iter().copied().chain(["*"]).enumerate() {
            let name = &name;
            for clean in [CleanK::Never, CleanK::Log(1), CleanK::Gz(1)] {
                for append in [false, true] {
                    for as_dir in [false, true] {
                        let n2 = (*name).to_string();
                        let input = format!("pre-existing {} {name:?}, naming {naming:?}, cleanup {clean:?}, append {append}", if as_dir { "directory" } else { "file" });
                        let r = guard(&format!("prepopulated/{}/{name}", naming.short()), &input, move || prepop_case(&n2, naming, clean, append, as_dir));
                        record(out, r, json!({"kind": "prepop", "naming": u, "name": ni, "clean": format!("{clean:?}"), "append": append, "as_dir": as_dir}), Some(input));
                    }
                }
            }
        }
        return;
    }
    if u > n_prepop_units() {
        recursion_vs_reconfiguration(tier, out);
        shutdown_with_pending_cleanup(tier, out);
        return;
    }
    // (iii) + (vii)
    for s in ["", "/", "//", "a=b=c", "=", "info/(", "\u{0}", "é=é", &"a,".repeat(5000), &"x".repeat(100_000)] {
        let s2 = s.to_string();
        let r = guard("spec-string", &format!("spec string of {} bytes", s.len()), move || {
            let _ = LogSpecification::parse(&s2);
            let rec = Recorder::new(LevelFilter::Trace);
            let (logger, handle) = Logger::with(LogSpecification::info()).log_to_writer(Box::new(rec)).error_channel(ErrorChannel::DevNull).build().map_err(|e| ("build".to_string(), e.to_string()))?;
            let _ = handle.parse_new_spec(&s2);
            let mut h2 = handle.clone();
            let _ = h2.parse_and_push_temp_spec(&s2);
            h2.pop_temp_spec();
            std::mem::forget(h2);
            lg::log_info(&*logger, "still alive");
            drop(handle);
            Ok(())
        });
        record(out, r, json!({"kind": "spec", "len": s.len()}), Some(format!("s{}", s.len())));
    }
    // TOML texts for from_toml (and through a specfile read at start): anything but a panic
    for (i, t) in toml_inputs().into_iter().enumerate() {
        let r = guard("spec-toml", &format!("toml text #{i}"), move || toml_case(&t));
        record(out, r, json!({"kind": "toml", "i": i}), Some(format!("t{i}")));
    }
    for i in 0..4 {
        let r = guard("error-channel-broken", &format!("error channel case {i}"), move || errchan_case(i));
        record(out, r, json!({"kind": "errchan", "i": i}), Some(format!("e{i}")));
    }
    for i in 0..N_ROTATION_EXTREMES {
        let r = guard("rotation-extremes", &format!("rotation parameters case {i}"), move || rotation_extremes_case(i));
        record(out, r, json!({"kind": "rotation-extremes", "i": i}), Some(format!("x{i}")));
    }
    for i in 0..14 {
        let r = guard("write-mode", &format!("write mode case {i}"), move || writemode_case(i));
        record(out, r, json!({"kind": "writemode", "i": i}), Some(format!("w{i}")));
    }
}

fn replay(case: &Value) -> Vec<Violation> {
    let mut out = Out::default();
    let r: Result<(), Fail> = match case["kind"].as_str() {
        Some("target") => {
            let t = case["target"].as_str().unwrap_or("").to_string();
            let w = case["with_writer"].as_bool().unwrap_or(false);
            println!("replay C10: target {t:?} with_writer={w}");
            let t2 = t.clone();
            guard("target", &format!("target {t:?}"), move || target_case(t2, w))
        }
        Some("record") => {
            let k = KINDS[case["out"].as_u64().unwrap_or(0) as usize % KINDS.len()];
            let msg = messages()[case["msg"].as_u64().unwrap_or(0) as usize % messages().len()].clone();
            let (f, kv) = (case["fields"].as_u64().unwrap_or(0) as u8, case["kv"].as_bool().unwrap_or(false));
            guard(&format!("record/{k:?}"), "record", move || record_case(k, msg, f, kv))
        }
        Some("recursion") => {
            let k = KINDS[case["out"].as_u64().unwrap_or(0) as usize % KINDS.len()];
            let (d, f) = (case["depth"].as_u64().unwrap_or(1) as u8, case["filter"].as_bool().unwrap_or(false));
            println!("replay C10: recursive logging into {k:?} depth {d} filter {f}");
            guard(&format!("recursion/{k:?}"), "recursion", move || recursion_case(k, d, f))
        }
        Some("fileconfig") => {
            let (nname, naming) = namings()[case["naming"].as_u64().unwrap_or(0) as usize % namings().len()].clone();
            let b = BASENAMES[case["b"].as_u64().unwrap_or(0) as usize % 4].to_string();
            let d = DISCRS[case["d"].as_u64().unwrap_or(0) as usize % 3].map(String::from);
            let s = SUFFIXES[case["s"].as_u64().unwrap_or(0) as usize % 3].map(String::from);
            let (st, ap) = (case["starttime"].as_bool().unwrap_or(false), case["append"].as_bool().unwrap_or(false));
            println!("replay C10: file configuration basename {b:?} discriminant {d:?} suffix {s:?} starttime {st} naming {nname} append {ap}");
            guard("fileconfig", "fileconfig", move || fileconfig_case(&b, d.as_deref(), s.as_deref(), st, naming, ap))
        }
        Some("prepop") => {
            let naming = NG[case["naming"].as_u64().unwrap_or(0) as usize % NG.len()];
            let ni = case["name"].as_u64().unwrap_or(0) as usize;
            let name = if ni >= NEAR.len() { "*".to_string() } else { NEAR[ni].to_string() };
            let clean = match case["clean"].as_str().unwrap_or("") {
                "Log(1)" => CleanK::Log(1),
                "Gz(1)" => CleanK::Gz(1),
                _ => CleanK::Never,
            };
            let (ap, ad) = (case["append"].as_bool().unwrap_or(false), case["as_dir"].as_bool().unwrap_or(false));
            println!("replay C10: pre-existing {name:?} naming {naming:?} cleanup {clean:?} append {ap} dir {ad}");
            guard("prepopulated", "prepop", move || prepop_case(&name, naming, clean, ap, ad))
        }
        Some("toml") => {
            let i = case["i"].as_u64().unwrap_or(0) as usize;
            match toml_inputs().into_iter().nth(i) {
                Some(t) => guard("spec-toml", "toml text", move || toml_case(&t)),
                None => Ok(()),
            }
        }
        Some("errchan") => {
            let i = case["i"].as_u64().unwrap_or(0) as usize;
            guard("error-channel-broken", "error channel", move || errchan_case(i))
        }
        Some("rotation-extremes") => {
            let i = case["i"].as_u64().unwrap_or(0) as usize;
            guard("rotation-extremes", "rotation parameters", move || rotation_extremes_case(i))
        }
        Some("writemode") => {
            let i = case["i"].as_u64().unwrap_or(0) as usize;
            guard("write-mode", "writemode", move || writemode_case(i))
        }
        _ => Ok(()),
    };
    record(&mut out, r, case.clone(), None);
    out.violations
}

#[allow(dead_code)]
fn _unused(_: NameParts, _: ModeK) {}
