//! C13 — brace targets, writer level ceilings and duplication route each record correctly.
//!
//! Exhaustive enumeration of brace lists (<= 3 distinct names from {A, B, S, U, _Default} in
//! every order) and plain targets x levels x specifications x module paths on a real Logger
//! whose additional writers are a recording LogWriter (A), a FileLogWriter with max_level Warn
//! (B; later: ceilings Warn/Debug/Error/Off by unit) and a SyslogWriter with max_log_level Warn (later: Warn/Error/Debug/Info by unit) on a unix datagram socket (S); plus the full
//! Duplicate grid for stderr x stdout, at build time and through adapt_duplication_to_*.
use super::{default_cap, Prop};
use crate::capture::FdCapture;
use crate::lg;
use crate::rec::Recorder;
use crate::report::{Meta, Out, Violation};
use crate::scratch::Scratch;
use crate::specref::{RefSpec, LEVELS};
use crate::{run_isolated, Ran};
use flexi_logger::writers::{FileLogWriter, SyslogConnection, SyslogFacility, SyslogLineHeader, SyslogWriter};
use flexi_logger::{Duplicate, ErrorChannel, FileSpec, Logger};
use log::{Level, LevelFilter, Log, Record};
use serde_json::{json, Value};
use std::os::unix::net::UnixDatagram;
use std::time::Duration;

pub fn prop() -> Prop {
    Prop {
        id: "C13",
        meta,
        units,
        run_unit,
        replay,
        bounds,
        wall_cap_s: default_cap,
        max_workers: |_| 64,
    }
}

fn meta() -> Meta {
    Meta {
        id: "C13",
        level: "exploration",
        rule: "routing: every brace list of <= 4 (quick, 205 lists) / 5 (thorough, 325 lists) distinct names from {A, B, S_Default (a registered name that merely contains _Default), ' A' (unknown: names are taken verbatim, blanks included), _Default} in every order plus plain targets {m, m::x, other} x 5 levels x module path {m, other, absent} x specification {off, error, info, trace, off,m=debug} x primary {recording writer, file}; duplication: 7 x 7 Duplicate settings for stderr x stdout x 5 levels at build time, and every ordered pair (old, new) through adapt_duplication_to_stderr / _stdout; distinct_nontrivial = distinct (specification, primary, target, level, module path) probes that address at least one additional writer, plus duplication probes with a non-None setting; routing also through a logger without any additional writer; one more unit routes records while an additional FileLogWriter fails with ENOSPC on every write (what is addressed to it reaches nobody else); plus an auxiliary free-running pass (sampling) in which two threads adapt the two duplication levels at the same moment, 3000 / 40000 rounds; the duplicate streams have distinct formats",
        assumptions: vec![
            "repeated names in one brace list are not enumerated (the statement does not define them)".into(),
            "stdout / stderr are observed by redirecting fd 1 / 2 of the worker process".into(),
        ],
    }
}

// (the unknown name differs from a registered one by a blank only: names are taken verbatim)
// (the third writer is registered under a name that merely contains "_Default")
const NAMES: [&str; 5] = ["A", "B", "S_Default", " A", "_Default"];
const PLAIN: [&str; 3] = ["m", "m::x", "other"];
const MODPATHS: [Option<&str>; 3] = [Some("m"), Some("other"), None];

fn specs() -> Vec<RefSpec> {
    let m = |d: Option<LevelFilter>, ms: &[(&str, LevelFilter)]| RefSpec {
        default: d,
        modules: ms.iter().map(|(n, l)| ((*n).to_string(), *l)).collect(),
        regex: None,
    };
    vec![
        m(None, &[]),
        m(Some(LevelFilter::Error), &[]),
        m(Some(LevelFilter::Info), &[]),
        m(Some(LevelFilter::Trace), &[]),
        m(None, &[("m", LevelFilter::Debug)]),
        // a text filter that the probe message does not match: it concerns the primary output
        // only, the named writers get their records whatever the specification says
        RefSpec {
            default: Some(LevelFilter::Info),
            modules: Vec::new(),
            regex: Some("q".into()),
        },
    ]
}

static THOROUGH: std::sync::atomic::AtomicBool = std::sync::atomic::AtomicBool::new(false);

fn brace_lists() -> Vec<Vec<usize>> {
    // every list of distinct names in every order: up to 4 names (quick) / all 5 (thorough)
    let n = NAMES.len();
    let max = if THOROUGH.load(std::sync::atomic::Ordering::Relaxed) { 5 } else { 4 };
    let mut v: Vec<Vec<usize>> = Vec::new();
    let mut frontier: Vec<Vec<usize>> = vec![vec![]];
    for _ in 0..max {
        let mut next = Vec::new();
        for l in &frontier {
            for a in 0..n {
                if !l.contains(&a) {
                    let mut l2 = l.clone();
                    l2.push(a);
                    next.push(l2);
                }
            }
        }
        v.extend(next.iter().cloned());
        frontier = next;
    }
    v
}

const DUPS: [Duplicate; 7] = [Duplicate::None, Duplicate::Error, Duplicate::Warn, Duplicate::Info, Duplicate::Debug, Duplicate::Trace, Duplicate::All];

fn dup_admits(d: Duplicate, l: Level) -> bool {
    match d {
        Duplicate::None => false,
        Duplicate::Error => l <= Level::Error,
        Duplicate::Warn => l <= Level::Warn,
        Duplicate::Info => l <= Level::Info,
        Duplicate::Debug => l <= Level::Debug,
        Duplicate::Trace | Duplicate::All => true,
    }
}

// units: routing = spec x primary (10); duplication = 7 (stderr setting) + 2 (adapt)
fn units(_tier: &str) -> usize {
    specs().len() * 2 + DUPS.len() + 2 + specs().len() + 1 + 1
}

fn adapt_stress_rounds() -> usize {
    if THOROUGH.load(std::sync::atomic::Ordering::Relaxed) {
        40_000
    } else {
        3_000
    }
}

/// Auxiliary, free-running (sampling; decides nothing on its own): two threads adapt the two
/// duplication levels at the same moment, round after round, each to the opposite of what it set
/// in the round before; after each round a warn record shows which levels are in force. The two
/// settings are independent: an update of one must never undo the other (the window of such a
/// lost update contains no hook, the scheduler cannot enumerate it).
fn adapt_stress() -> Result<(u64, u64), Fail> {
    use std::sync::atomic::{AtomicUsize, Ordering};
    let sc = Scratch::new("c13s");
    let rec = Recorder::new(LevelFilter::Trace);
    let (logger, handle) = Logger::with(flexi_logger::LogSpecification::trace())
        .format(lg::payload_format)
        .log_to_writer(Box::new(rec.clone()))
        .duplicate_to_stderr(Duplicate::Error)
        .duplicate_to_stdout(Duplicate::Error)
        .error_channel(ErrorChannel::DevNull)
        .build()
        .map_err(|e| Fail {
            clause: "machinery",
            cause: "build".into(),
            detail: e.to_string(),
        })?;
    let rounds = adapt_stress_rounds();
    let (pe, po) = (sc.path().join("err.txt"), sc.path().join("out.txt"));
    let ce = FdCapture::start(2, pe.clone());
    let co = FdCapture::start(1, po.clone());
    let gate = std::sync::Arc::new(AtomicUsize::new(0));
    let done = std::sync::Arc::new(AtomicUsize::new(0));
    let mut ths = Vec::new();
    for which in 0..2usize {
        let (gate, done) = (std::sync::Arc::clone(&gate), std::sync::Arc::clone(&done));
        let mut h = handle.clone();
        ths.push(std::thread::spawn(move || {
            for r in 0..rounds {
                while gate.load(Ordering::SeqCst) <= r {
                    std::hint::spin_loop();
                }
                // stderr: Info in even rounds, Error in odd ones; stdout the other way round
                let lvl = if (r + which) % 2 == 0 { Duplicate::Info } else { Duplicate::Error };
                if which == 0 {
                    h.adapt_duplication_to_stderr(lvl).ok();
                } else {
                    h.adapt_duplication_to_stdout(lvl).ok();
                }
                done.fetch_add(1, Ordering::SeqCst);
            }
            std::mem::forget(h);
        }));
    }
    let len = |p: &std::path::Path| std::fs::metadata(p).map_or(0, |m| m.len());
    let mut bad: Option<String> = None;
    for r in 0..rounds {
        gate.store(r + 1, Ordering::SeqCst);
        while done.load(Ordering::SeqCst) < 2 * (r + 1) {
            std::hint::spin_loop();
        }
        let (e0, o0) = (len(&pe), len(&po));
        lg::log_to(&*logger, Level::Warn, "m", "probe");
        let (de, dout) = (len(&pe) > e0, len(&po) > o0);
        let (we, wo) = (r % 2 == 0, r % 2 == 1);
        if bad.is_none() && (de != we || dout != wo) {
            bad = Some(format!("round {r}: stderr was adapted to {} and stdout to {} at the same moment by two threads; a warn record was then duplicated to stderr: {de} (expected {we}), to stdout: {dout} (expected {wo})", if we { "Info" } else { "Error" }, if wo { "Info" } else { "Error" }));
        }
    }
    for t in ths {
        t.join().ok();
    }
    if let Some(c) = co {
        c.finish();
    }
    if let Some(c) = ce {
        c.finish();
    }
    rec.take();
    handle.shutdown();
    drop(logger);
    match bad {
        Some(d) => Err(Fail {
            clause: "dup-wrong",
            cause: "concurrent-adapt/free-running".into(),
            detail: d,
        }),
        None => Ok((rounds as u64, 0)),
    }
}

/// Routing while one of the named writers fails: the additional FileLogWriter F writes to a full
/// device (its file is a symlink to /dev/full, every write really fails with ENOSPC). What is
/// addressed to F alone reaches nobody else; what is addressed to F and others reaches the others
/// exactly once; the default channel gets only what names _Default.
fn routing_with_failing_writer() -> Result<(u64, u64), Fail> {
    let sc = Scratch::new("c13f");
    let err = crate::scratch::root().join("err.log");
    std::fs::write(&err, b"").ok();
    let mk = |dir: &std::path::Path, base: &str| {
        FileLogWriter::builder(FileSpec::default().directory(dir).basename(base).suppress_timestamp()).format(lg::payload_format).try_build().map_err(|e| Fail {
            clause: "machinery",
            cause: "flw".into(),
            detail: e.to_string(),
        })
    };
    let (fdir, bdir, pdir) = (sc.path().join("f"), sc.path().join("b"), sc.path().join("p"));
    std::fs::create_dir_all(&fdir).ok();
    std::os::unix::fs::symlink("/dev/full", fdir.join("f.log")).map_err(|e| Fail {
        clause: "machinery",
        cause: "symlink".into(),
        detail: e.to_string(),
    })?;
    let (f, b) = (mk(&fdir, "f")?, mk(&bdir, "b")?);
    let (logger, handle) = Logger::with(flexi_logger::LogSpecification::trace())
        .format(lg::payload_format)
        .log_to_file(FileSpec::default().directory(&pdir).basename("p").suppress_timestamp())
        .error_channel(ErrorChannel::File(err.clone()))
        .add_writer("F", Box::new(f))
        .add_writer("B", Box::new(b))
        .build()
        .map_err(|e| Fail {
            clause: "machinery",
            cause: "build".into(),
            detail: e.to_string(),
        })?;
    let lines = |p: &std::path::Path| -> Vec<String> { String::from_utf8_lossy(&std::fs::read(p).unwrap_or_default()).lines().map(String::from).collect() };
    let (mut want_b, mut want_p) = (Vec::new(), Vec::new());
    let mut n = 0;
    for (i, target) in ["{F}", "{B}", "{F,B}", "{B,F}", "{F,_Default}", "{_Default,F}", "{F,B,_Default}", "plain", "{F}", "{B}"].iter().enumerate() {
        let msg = format!("m{i}");
        if target.contains('B') {
            want_b.push(msg.clone());
        }
        if target.contains("_Default") || !target.starts_with('{') {
            want_p.push(msg.clone());
        }
        log_rec(&*logger, Level::Info, target, Some("m"), &msg);
        n += 1;
    }
    handle.shutdown();
    drop(logger);
    drop(handle);
    let (got_b, got_p) = (lines(&bdir.join("b.log")), lines(&pdir.join("p.log")));
    if got_b != want_b {
        return Err(Fail {
            clause: "delivered-to-unnamed",
            cause: "failing-sibling/file".into(),
            detail: format!("writer F fails with ENOSPC on every write; writer B received {got_b:?}, addressed to it were {want_b:?}"),
        });
    }
    if got_p != want_p {
        return Err(Fail {
            clause: "default-wrong",
            cause: "failing-sibling/default".into(),
            detail: format!("writer F fails with ENOSPC on every write; the default channel received {got_p:?}, addressed to it were {want_p:?}"),
        });
    }
    if lg::read_errchan(&err).is_empty() {
        return Err(Fail {
            clause: "unknown-not-reported",
            cause: "failing-sibling/errchan".into(),
            detail: "the failing writes of F were not reported on the error channel".into(),
        });
    }
    Ok((n, n))
}
fn bounds(_tier: &str) -> Value {
    json!({"brace_lists": brace_lists().len(), "plain_targets": PLAIN.len(), "levels": 5, "module_paths": 3, "specifications": specs().len(), "primary_kinds": 2, "duplicate_grid": "7x7x5 + 2x49x5"})
}

fn log_rec(logger: &dyn Log, level: Level, target: &str, modpath: Option<&str>, msg: &str) {
    logger.log(&Record::builder().args(format_args!("{msg}")).level(level).target(target).module_path(modpath).file(Some("src/h.rs")).line(Some(1)).build());
}

struct Fail {
    clause: &'static str,
    cause: String,
    detail: String,
}

fn drain_socket(s: &UnixDatagram) -> Vec<String> {
    let mut v = Vec::new();
    let mut buf = [0u8; 2048];
    while let Ok(n) = s.recv(&mut buf) {
        v.push(String::from_utf8_lossy(&buf[..n]).to_string());
    }
    v
}

/// `with_writers == false`: a logger without any additional writer still interprets brace
/// targets - every name except _Default is unknown (reported, delivered nowhere), and _Default
/// is judged by the record's module path.
fn routing(spec_idx: usize, file_primary: bool, with_writers: bool) -> Result<(u64, u64), Fail> {
    let spec = specs()[spec_idx].clone();
    // the ceilings of the file writer and of the syslog writer vary with the unit
    let ceil_b = [LevelFilter::Warn, LevelFilter::Debug, LevelFilter::Error, LevelFilter::Off][spec_idx % 4];
    let ceil_s = [LevelFilter::Warn, LevelFilter::Error, LevelFilter::Debug, LevelFilter::Info][spec_idx % 4];
    let sc = Scratch::new("c13");
    let err = crate::scratch::root().join("err.log");
    std::fs::write(&err, b"").ok();
    let sock_path = sc.path().join("syslog.sock");
    let sock = UnixDatagram::bind(&sock_path).map_err(|e| Fail {
        clause: "machinery",
        cause: "socket".into(),
        detail: e.to_string(),
    })?;
    sock.set_nonblocking(true).ok();
    let primary = Recorder::new(LevelFilter::Trace);
    let a = Recorder::new(LevelFilter::Trace);
    let b_path = sc.path().join("bdir");
    let b = FileLogWriter::builder(FileSpec::default().directory(&b_path).basename("b").suppress_timestamp())
        .format(lg::payload_format)
        .max_level(ceil_b)
        .try_build()
        .map_err(|e| Fail {
            clause: "machinery",
            cause: "flw".into(),
            detail: e.to_string(),
        })?;
    let s = SyslogWriter::builder(
        SyslogConnection::try_datagram(&sock_path).map_err(|e| Fail {
            clause: "machinery",
            cause: "syslog-connection".into(),
            detail: e.to_string(),
        })?,
        SyslogLineHeader::Rfc3164,
        SyslogFacility::LocalUse0,
    )
    .max_log_level(ceil_s)
    .format(lg::payload_format)
    .build()
    .map_err(|e| Fail {
        clause: "machinery",
        cause: "syslog".into(),
        detail: e.to_string(),
    })?;
    let pdir = sc.path().join("pdir");
    let mut lb = Logger::with(spec.build()).format(lg::payload_format).error_channel(ErrorChannel::File(err.clone()));
    lb = if file_primary {
        lb.log_to_file(FileSpec::default().directory(&pdir).basename("p").suppress_timestamp())
    } else {
        lb.log_to_writer(Box::new(primary.clone()))
    };
    if with_writers {
        lb = lb.add_writer("A", Box::new(a.clone())).add_writer("B", Box::new(b)).add_writer("S_Default", s);
    }
    let (logger, handle) = lb
        .build()
        .map_err(|e| Fail {
            clause: "machinery",
            cause: "build".into(),
            detail: e.to_string(),
        })?;
    let b_file = b_path.join("b.log");
    let p_file = pdir.join("p.log");
    let flen = |p: &std::path::Path| std::fs::read(p).map_or(0, |c| c.iter().filter(|x| **x == b'\n').count());
    let mut targets: Vec<(String, Option<Vec<usize>>)> = brace_lists().into_iter().map(|l| (format!("{{{}}}", l.iter().map(|i| NAMES[*i]).collect::<Vec<_>>().join(",")), Some(l))).collect();
    for p in PLAIN {
        targets.push((p.to_string(), None));
    }
    let (mut probes, mut addressed) = (0u64, 0u64);
    let kind = if file_primary { "file" } else { "custom" };
    for (target, list) in &targets {
        for level in LEVELS {
            for mp in MODPATHS {
                probes += 1;
                a.take();
                primary.take();
                drain_socket(&sock);
                let (b0, p0) = (flen(&b_file), flen(&p_file));
                let e0 = lg::read_errchan(&err).len();
                log_rec(&*logger, level, target, mp, "x");
                let got_a = a.take().len();
                let got_b = flen(&b_file) - b0;
                let got_s = drain_socket(&sock).len();
                let got_p = if file_primary { flen(&p_file) - p0 } else { primary.take().len() };
                let got_e = lg::read_errchan(&err).len() - e0;
                let named = |n: &str| list.as_ref().is_some_and(|l| l.iter().any(|i| NAMES[*i] == n));
                let want_a = usize::from(with_writers && named("A"));
                let want_b = usize::from(with_writers && named("B") && level <= ceil_b);
                let want_s = usize::from(with_writers && named("S_Default") && level <= ceil_s);
                let text_ok = spec.regex.as_ref().map_or(true, |r| "x".contains(r.as_str()));
                let want_p = usize::from(text_ok
                    && match list {
                        Some(_) => named("_Default") && spec.enabled(level, mp.unwrap_or("")),
                        None => spec.enabled(level, target),
                    });
                let unknown = if with_writers { usize::from(named(" A")) } else { list.as_ref().map_or(0, |l| l.iter().filter(|i| NAMES[**i] != "_Default").count()) };
                let want_e = unknown;
                if list.is_some() && (named("A") || named("B") || named("S_Default")) {
                    addressed += 1;
                }
                let shape = match list {
                    None => "plain".to_string(),
                    Some(l) => format!("list{}{}{}", l.len().min(3), if named(" A") { "+unknown" } else { "" }, if with_writers { "" } else { "/no-additional-writers" }),
                };
                let ctx = format!("spec `{}` primary={kind} target={target:?} level={level} module_path={mp:?}", spec.text());
                for (who, got, want, ceiling) in [("custom", got_a, want_a, LevelFilter::Trace), ("file", got_b, want_b, ceil_b), ("syslog", got_s, want_s, ceil_s)] {
                    if got != want {
                        let is_named = match who {
                            "custom" => named("A"),
                            "file" => named("B"),
                            _ => named("S_Default"),
                        };
                        let clause = if !is_named {
                            "delivered-to-unnamed"
                        } else if level > ceiling && got > 0 {
                            "above-ceiling"
                        } else if got > want {
                            "delivered-twice"
                        } else {
                            "not-delivered"
                        };
                        return Err(Fail {
                            clause,
                            cause: format!("{who}/{shape}"),
                            detail: format!("{ctx}: additional writer ({who}, ceiling {ceiling}) received {got} record(s), expected {want}"),
                        });
                    }
                }
                if got_p != want_p {
                    return Err(Fail {
                        clause: "default-wrong",
                        cause: format!("default-{kind}/{shape}"),
                        detail: format!("{ctx}: the default channel received {got_p} record(s), expected {want_p}"),
                    });
                }
                // (one line per unknown name; without additional writers only "reported at all" is judged)
                if if with_writers { got_e != want_e } else { (got_e > 0) != (want_e > 0) } {
                    return Err(Fail {
                        clause: "unknown-not-reported",
                        cause: format!("errchan/{shape}"),
                        detail: format!("{ctx}: {got_e} line(s) on the error channel, expected {want_e}"),
                    });
                }
            }
        }
    }
    handle.shutdown();
    drop(logger);
    drop(handle);
    Ok((probes, addressed))
}

fn count_lines(b: &[u8]) -> usize {
    b.iter().filter(|x| **x == b'\n').count()
}

/// The format of the stdout duplicates (the stderr duplicates use the plain message).
fn out_format(w: &mut dyn std::io::Write, _now: &mut flexi_logger::DeferredNow, record: &log::Record) -> std::io::Result<()> {
    write!(w, "OUT|{}", record.args())
}

/// stderr setting fixed at build time, all stdout settings, all levels; with a primary writer that
/// takes everything, with one whose own ceiling is Info (duplication does not depend on what the
/// primary output accepts), with `do_not_log()` (documented: duplicates only), and each in the
/// write modes Direct and SupportCapture (the latter formats into a scratch buffer per stream).
fn duplication_build(d_err: Duplicate) -> Result<u64, Fail> {
    let sc = Scratch::new("c13d");
    let mut n = 0;
    // (the builder methods may be called in any order: 3/4 = the duplication is configured before
    // the output is chosen; 4 = the output is chosen twice, log_to_stdout() first)
    for (prim, mode) in [(0, false), (1, false), (2, false), (0, true), (2, true), (3, false), (4, false)] {
        let dup_first = prim >= 3;
        let replaced = prim == 4;
        let prim = if prim >= 3 { 0 } else { prim };
        let ceiling = if prim == 1 { LevelFilter::Info } else { LevelFilter::Trace };
        let variant = format!("{}{}{}", ["primary-takes-all", "primary-ceiling-info", "do_not_log"][prim], if mode { "/support-capture" } else { "" }, if replaced { "/duplication-first+output-chosen-twice" } else if dup_first { "/duplication-configured-first" } else { "" });
        for d_out in DUPS {
            let rec = Recorder::new(ceiling);
            let mut lb = Logger::with(flexi_logger::LogSpecification::trace()).format(lg::payload_format).format_for_stdout(out_format);
            if dup_first {
                lb = lb.duplicate_to_stderr(d_err).duplicate_to_stdout(d_out);
            }
            if replaced {
                lb = lb.log_to_stdout();
            }
            lb = if prim == 2 { lb.do_not_log() } else { lb.log_to_writer(Box::new(rec.clone())) };
            if mode {
                lb = lb.write_mode(flexi_logger::WriteMode::SupportCapture);
            }
            if !dup_first {
                lb = lb.duplicate_to_stderr(d_err).duplicate_to_stdout(d_out);
            }
            let (logger, handle) = lb.error_channel(ErrorChannel::DevNull).build().map_err(|e| Fail {
                clause: "machinery",
                cause: "build".into(),
                detail: e.to_string(),
            })?;
            for level in LEVELS {
                n += 1;
                let ce = FdCapture::start(2, sc.path().join("err.txt"));
                let co = FdCapture::start(1, sc.path().join("out.txt"));
                lg::log_to(&*logger, level, "m", "dupmsg");
                let out = co.map(FdCapture::finish).unwrap_or_default();
                let errb = ce.map(FdCapture::finish).unwrap_or_default();
                let (ge, go) = (count_lines(&errb), count_lines(&out));
                let (we, wo) = (usize::from(dup_admits(d_err, level)), usize::from(dup_admits(d_out, level)));
                let wp = usize::from(prim != 2 && level <= ceiling);
                if rec.take().len() != wp {
                    return Err(Fail {
                        clause: "default-wrong",
                        cause: "dup/primary".into(),
                        detail: format!("[{variant}] duplicate_to_stderr({d_err:?}) duplicate_to_stdout({d_out:?}) level {level}: primary writer did not get exactly {wp} record(s)"),
                    });
                }
                if ge != we || go != wo {
                    return Err(Fail {
                        clause: "dup-wrong",
                        cause: format!("{}/build-time{}", if ge != we { "stderr" } else { "stdout" }, if prim == 0 && !mode { String::new() } else { format!("/{variant}") }),
                        detail: format!("[{variant}] duplicate_to_stderr({d_err:?}) duplicate_to_stdout({d_out:?}) level {level}: {ge} line(s) on stderr (expected {we}), {go} on stdout (expected {wo})"),
                    });
                }
                if (ge == 1 && errb != b"dupmsg\n") || (go == 1 && out != b"OUT|dupmsg\n") {
                    return Err(Fail {
                        clause: "dup-wrong",
                        cause: if mode { "content/support-capture".into() } else { "content".into() },
                        detail: format!("[{variant}] duplicate_to_stderr({d_err:?}) duplicate_to_stdout({d_out:?}) level {level}: duplicate content: stderr {:?} stdout {:?}", String::from_utf8_lossy(&errb), String::from_utf8_lossy(&out)),
                    });
                }
            }
            drop(handle);
            drop(logger);
        }
    }
    Ok(n)
}

/// every ordered pair (old, new) through adapt_duplication_to_{stderr|stdout}; the other stream
/// keeps `Duplicate::Warn`.
fn duplication_adapt(stderr: bool) -> Result<u64, Fail> {
    let sc = Scratch::new("c13a");
    let mut n = 0;
    for old in DUPS {
        for new in DUPS {
            let rec = Recorder::new(LevelFilter::Trace);
            let mut lb = Logger::with(flexi_logger::LogSpecification::trace()).format(lg::payload_format).log_to_writer(Box::new(rec.clone())).error_channel(ErrorChannel::DevNull);
            lb = if stderr { lb.duplicate_to_stderr(old).duplicate_to_stdout(Duplicate::Warn) } else { lb.duplicate_to_stdout(old).duplicate_to_stderr(Duplicate::Warn) };
            let (logger, mut handle) = lb.build().map_err(|e| Fail {
                clause: "machinery",
                cause: "build".into(),
                detail: e.to_string(),
            })?;
            let r = if stderr { handle.adapt_duplication_to_stderr(new) } else { handle.adapt_duplication_to_stdout(new) };
            if let Err(e) = r {
                return Err(Fail {
                    clause: "dup-wrong",
                    cause: "adapt-error".into(),
                    detail: e.to_string(),
                });
            }
            for level in LEVELS {
                n += 1;
                let ce = FdCapture::start(2, sc.path().join("err.txt"));
                let co = FdCapture::start(1, sc.path().join("out.txt"));
                lg::log_to(&*logger, level, "m", "dupmsg");
                let out = co.map(FdCapture::finish).unwrap_or_default();
                let errb = ce.map(FdCapture::finish).unwrap_or_default();
                rec.take();
                let (ge, go) = (count_lines(&errb), count_lines(&out));
                let (d_err, d_out) = if stderr { (new, Duplicate::Warn) } else { (Duplicate::Warn, new) };
                let (we, wo) = (usize::from(dup_admits(d_err, level)), usize::from(dup_admits(d_out, level)));
                if ge != we || go != wo {
                    let adapted_wrong = if stderr { ge != we } else { go != wo };
                    return Err(Fail {
                        clause: "dup-wrong",
                        cause: format!("{}/{}", if stderr { "stderr" } else { "stdout" }, if adapted_wrong { "adapted" } else { "other-stream-after-adapt" }),
                        detail: format!("{} adapted from {old:?} to {new:?} (other stream Warn), level {level}: {ge} line(s) on stderr (expected {we}), {go} on stdout (expected {wo})", if stderr { "stderr" } else { "stdout" }),
                    });
                }
            }
            drop(handle);
            drop(logger);
        }
    }
    Ok(n)
}

fn run_unit(tier: &str, unit: usize, out: &mut Out) {
    THOROUGH.store(tier != "quick", std::sync::atomic::Ordering::Relaxed);
    let ns = specs().len() * 2;
    let r: Ran<Result<(u64, u64), Fail>> = if unit >= ns + DUPS.len() + 2 + specs().len() + 1 {
        out.count("adapt_stress_rounds(sampling)", adapt_stress_rounds() as u64);
        run_isolated(Duration::from_secs(600), adapt_stress)
    } else if unit >= ns + DUPS.len() + 2 + specs().len() {
        run_isolated(Duration::from_secs(120), routing_with_failing_writer)
    } else if unit >= ns + DUPS.len() + 2 {
        let i = unit - ns - DUPS.len() - 2;
        run_isolated(Duration::from_secs(120), move || routing(i, false, false))
    } else if unit < ns {
        run_isolated(Duration::from_secs(120), move || routing(unit / 2, unit % 2 == 1, true))
    } else if unit < ns + DUPS.len() {
        let d = DUPS[unit - ns];
        run_isolated(Duration::from_secs(120), move || duplication_build(d).map(|n| (n, if matches!(d, Duplicate::None) { 0 } else { n })))
    } else {
        let stderr = unit - ns - DUPS.len() == 0;
        run_isolated(Duration::from_secs(120), move || duplication_adapt(stderr).map(|n| (n, n)))
    };
    let case = json!({"unit": unit});
    match r {
        Ran::Done(Ok((n, nt))) => {
            out.evaluations += n;
            for i in 0..nt {
                out.nontrivial(&(unit, i));
            }
            out.outcome(if unit < ns { "routing-ok" } else { "duplication-ok" });
            if unit < 2 {
                out.sample(json!({"routing_unit": {"spec": specs()[unit / 2].text(), "file_primary": unit % 2 == 1, "targets": brace_lists().len() + PLAIN.len(), "probes": n}, "example_targets": ["{A}", "{B,_Default}", "{S, A,A}", "m::x"]}));
            }
        }
        Ran::Done(Err(f)) => out.violation(Violation::new(f.clause, f.cause, f.detail, case)),
        Ran::Panicked(m) => out.violation(Violation::new("panic", format!("unit{unit}"), m, case)),
        Ran::Hung => out.violation(Violation::new("hang", format!("unit{unit}"), String::new(), case)),
    }
}

fn replay(case: &Value) -> Vec<Violation> {
    let mut out = Out::default();
    run_unit("quick", case["unit"].as_u64().unwrap_or(0) as usize, &mut out);
    out.violations
}
