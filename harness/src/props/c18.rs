//! C18 — reopen_output and reset_flw switch files without losing or reordering records.
//!
//! All words up to a depth bound over {write small, write > buffer, flush, external rename,
//! external remove, reopen_output, reset_flw(other basename | other directory | rotation
//! toggled), trigger_rotation} for sync write modes x {no rotation, Numbers, TimestampsDirect};
//! a reference model tracks per physical file (by identity, not by name) which records it must
//! hold; after shutdown every file is compared with the model.
use super::{all_workers, default_cap, Prop};
use crate::env::Env;
use crate::family;
use crate::lg::{self, Cfg, CleanK, CritK, ModeK, NameParts, NamingK};
use crate::report::{Meta, Out, Violation};
use crate::{for_each_word, run_isolated, Ran};
use flexi_logger::LoggerHandle;
use log::Log;
use serde_json::{json, Value};
use std::collections::BTreeMap;
use std::path::{Path, PathBuf};
use std::time::Duration;

pub fn prop() -> Prop {
    Prop {
        id: "C18",
        meta,
        units,
        run_unit,
        replay,
        bounds,
        wall_cap_s: default_cap,
        max_workers: all_workers,
    }
}

fn meta() -> Meta {
    Meta {
        id: "C18",
        level: "model_checking",
        rule: "every word up to the depth bound over {W(5), W(80) (> buffer capacity 64), F, ExtRename, ExtRemove, Reopen, Reset(basename), Reset(directory), Reset(rotation toggled), R, ExtRename of the additional file writer's file}; every write also sends one record to the additional file writer X x {Direct, BufferDontFlush(64), BufferAndFlush(64)} x {no rotation, Numbers, TimestampsDirect}; external rename/remove applies to the file currently written to and is only issued when that file exists; states = distinct model states (number of physical files, their record counts) reached, non-trivial = word contains an external rename/remove followed by a reopen, or a reset, with writes before and after; every word with append on and off; ReopenFault = reopen_output while the first re-open it attempts fails by injection (the error is returned, the other writer is switched nevertheless; in the units with append, once the writers are active, the failure is real instead: the directory tree is moved away for the duration of the call, the error is returned and both writers keep the files they have open; in the units without append, when the current file was moved or removed before, a directory is put at its path for the duration of the call: the error is returned and the records logged afterwards are either in the file the writer had open or in the visible substitute file the re-open code leaves next to the path); ExtRenameCreate = rename the current file and create an empty file at its path (logrotate create); plus log_to_file_and_writer (a second FileLogWriter that gets every record): W W, both files renamed, reopen_output, W W; plus a symlinked log file path whose link is renamed before reopen_output; E2: reopen_output() after an external rename racing with a thread that logs two records, {Direct, BufferDontFlush(8), BufferDontFlush(64)}, state mutex not modelled (threads really block), all schedules with <= 2 (quick) / 3 (thorough) preemptions: a re-open that returned Ok has created the file at its path, the record logged afterwards is at the end of that file, the two files hold every record once in per-thread order",
        assumptions: vec![
            "size limit huge (rotation only when triggered), append on (a reset back to an earlier family continues it)".into(),
            "records the user destroyed with ExtRemove are exempt".into(),
        ],
    }
}

#[derive(Clone, Copy, Debug, PartialEq, Eq, Hash)]
enum Op {
    W(usize),
    F,
    ExtRename,
    ExtRemove,
    Reopen,
    ResetBase,
    ResetDir,
    ResetRot,
    R,
    /// externally rename the file of the additional file writer `X` (fan-out of reopen_output)
    ExtRenameX,
    /// reopen_output while the first re-open it attempts fails (injected at the guarded `reopen`
    /// point): documented as "all of them will be attempted to be re-opened; only the first error
    /// will be reported" - the other writer must be switched nevertheless
    ReopenFault,
    /// externally rename the current file and create an empty file at its path (what logrotate
    /// does with `create`): until reopen_output the writer keeps writing to the renamed file,
    /// afterwards to the file that now is at the path
    ExtRenameCreate,
}
fn alphabet() -> Vec<Op> {
    vec![Op::W(5), Op::W(80), Op::F, Op::ExtRename, Op::ExtRemove, Op::Reopen, Op::ResetBase, Op::ResetDir, Op::ResetRot, Op::R, Op::ExtRenameX, Op::ReopenFault, Op::ExtRenameCreate]
}
fn modes() -> Vec<ModeK> {
    vec![ModeK::Direct, ModeK::BufDont(64), ModeK::BufFlush(64, 3_600_000)]
}
fn rots() -> Vec<Option<NamingK>> {
    vec![None, Some(NamingK::Numbers), Some(NamingK::TimestampsDirect)]
}
fn depth(tier: &str) -> usize {
    if tier == "quick" {
        4
    } else {
        5
    }
}
// unit = (mode, rot, first letter)
fn units(_tier: &str) -> usize {
    2 * modes().len() * rots().len() * alphabet().len()
}
fn bounds(tier: &str) -> Value {
    json!({"depth": depth(tier), "alphabet": format!("{:?}", alphabet()), "modes": modes().len(), "rotation_configs": rots().len(), "append": "both"})
}

// ---------------------------------------------------------------- model

#[derive(Clone, Debug, Default)]
struct PFile {
    /// path at which the file is expected at the end (None: destroyed by the user)
    path: Option<PathBuf>,
    lines: Vec<Vec<u8>>,
}

#[derive(Clone, Debug, PartialEq, Eq, Hash, PartialOrd, Ord)]
struct FamKey {
    dir: PathBuf,
    base: String,
    rot: Option<NamingK>,
}

struct Model {
    files: Vec<PFile>,
    /// index of the physical file the writer currently writes to (None before initialisation)
    cur: Option<usize>,
    /// the path the writer believes it writes to
    cur_path: Option<PathBuf>,
    fam: FamKey,
    /// per family: next number for Numbers naming, restart counter for TimestampsDirect
    counters: BTreeMap<FamKey, u32>,
    side: usize,
}

fn cfg_for(mode: ModeK, fam: &FamKey, append: bool) -> Cfg {
    let mut cfg = match fam.rot {
        None => Cfg::norot(),
        Some(n) => Cfg::rot(CritK::Size(1_000_000), n, CleanK::Never),
    };
    cfg.mode = mode;
    cfg.append = append;
    cfg.parts = NameParts {
        basename: Some(fam.base.clone()),
        discriminant: None,
        suffix: Some("log".into()),
        use_timestamp: false,
    };
    cfg
}

fn ts_name(base: &str, restart: Option<u32>) -> String {
    let t = crate::hooks::base_instant().format(lg::FMT_STD).to_string();
    match restart {
        None => format!("{base}_{t}.log"),
        Some(n) => format!("{base}_{t}.restart-{n:04}.log"),
    }
}

impl Model {
    /// path of the file a freshly initialised (appending) writer of the family writes to
    fn initial_path(&self, files_on_disk: &dyn Fn(&Path) -> bool) -> PathBuf {
        let f = &self.fam;
        match f.rot {
            None => f.dir.join(format!("{}.log", f.base)),
            Some(NamingK::Numbers) => f.dir.join(format!("{}_rCURRENT.log", f.base)),
            Some(nk) => {
                // TimestampsDirect with append: the newest existing file of the family, else a
                // file named after the (frozen) instant
                let _ = files_on_disk;
                let parts = cfg_for(ModeK::Direct, f, true).parts;
                let scan = family::scan(&f.dir, &parts, None, Some(nk), &[]);
                match scan.members.last() {
                    Some(mbr) => f.dir.join(&mbr.name),
                    None => f.dir.join(ts_name(&f.base, None)),
                }
            }
        }
    }
}

struct Fail {
    clause: &'static str,
    at: usize,
    detail: String,
}

fn exists(p: &Path) -> bool {
    std::fs::symlink_metadata(p).is_ok()
}

fn run_word(mode: ModeK, rot: Option<NamingK>, append: bool, word: &[Op]) -> Result<(Vec<usize>, bool), Fail> {
    let env = Env::new("c18");
    env.enter();
    let fam0 = FamKey {
        dir: env.dir.clone(),
        base: "app".into(),
        rot,
    };
    let cfg0 = cfg_for(mode, &fam0, append);
    // an additional file writer X with its own file: reopen_output must reach it, too
    let xdir = env.dir.join("xdir");
    let xw = flexi_logger::writers::FileLogWriter::builder(flexi_logger::FileSpec::default().directory(&xdir).basename("x").suppress_timestamp())
        .format(lg::payload_format)
        .append()
        .try_build()
        .map_err(|e| Fail {
            clause: "build-error",
            at: 0,
            detail: e.to_string(),
        })?;
    let xpath = xdir.join("x.log");
    // model of X: physical files (path, lines); index of the one written to
    let mut xfiles: Vec<(PathBuf, Vec<u8>)> = vec![(xpath.clone(), Vec::new())];
    let mut xcur = 0usize;
    let mut xside = 0;
    let (logger, handle): (Box<dyn Log>, LoggerHandle) = cfg0.logger(&env.dir, &env.err).add_writer("X", Box::new(xw)).build().map_err(|e| Fail {
        clause: "build-error",
        at: 0,
        detail: e.to_string(),
    })?;
    let mut m = Model {
        files: Vec::new(),
        cur: None,
        cur_path: None,
        fam: fam0,
        counters: BTreeMap::new(),
        side: 0,
    };
    let mut seq = 0;
    let mut resets = 0;
    let mut interesting = (false, false, false); // (write before, switch, write after)
    for (i, op) in word.iter().enumerate() {
        match *op {
            Op::W(len) => {
                // lazy initialisation at the first write after start / reset
                let mut read_off: Option<Vec<String>> = None;
                if m.cur.is_none() && !append && matches!(m.fam.rot, Some(NamingK::TimestampsDirect)) {
                    // without append a timestamp-named family starts a new file whose name (with a
                    // restart infix if needed) is read off the directory after the write
                    read_off = Some(family::list_names(&m.fam.dir));
                } else if m.cur.is_none() {
                    let p = m.initial_path(&exists);
                    let at_path = m.files.iter().position(|f| f.path.as_deref() == Some(&p));
                    let idx = match (at_path, append, m.fam.rot) {
                        // appending: continue an existing physical file at that path
                        (Some(idx), true, _) => idx,
                        // not rotating, no append: the documented truncation of the file at the path
                        (Some(idx), false, None) => {
                            m.files[idx].lines.clear();
                            idx
                        }
                        // rotating with numbers, no append: the earlier rCURRENT becomes a rotated file
                        (Some(idx), false, Some(_)) => {
                            let n = m.counters.get(&m.fam).copied().unwrap_or(0);
                            m.files[idx].path = Some(m.fam.dir.join(format!("{}_r{n:05}.log", m.fam.base)));
                            m.counters.insert(m.fam.clone(), n + 1);
                            m.files.push(PFile {
                                path: Some(p.clone()),
                                lines: Vec::new(),
                            });
                            m.files.len() - 1
                        }
                        (None, _, _) => {
                            m.files.push(PFile {
                                path: Some(p.clone()),
                                lines: Vec::new(),
                            });
                            m.files.len() - 1
                        }
                    };
                    m.cur = Some(idx);
                    m.cur_path = Some(p);
                    if matches!(m.fam.rot, Some(NamingK::TimestampsDirect)) && !m.counters.contains_key(&m.fam) {
                        m.counters.insert(m.fam.clone(), 0);
                    }
                }
                let msg = lg::payload(0, seq, len - 1);
                seq += 1;
                let mut line = msg.clone().into_bytes();
                line.push(b'\n');
                if read_off.is_none() {
                    m.files[m.cur.unwrap()].lines.push(line.clone());
                }
                lg::log_info(&*logger, &msg);
                if let Some(before) = read_off {
                    let after = family::list_names(&m.fam.dir);
                    let new: Vec<&String> = after.iter().filter(|n| !before.contains(n) && n.starts_with(&format!("{}_", m.fam.base))).collect();
                    if new.len() != 1 {
                        return Err(Fail {
                            clause: "start-effect",
                            at: i,
                            detail: format!("the first write of a non-appending timestamp family created {} new files: {new:?}", new.len()),
                        });
                    }
                    let np = m.fam.dir.join(new[0]);
                    m.files.push(PFile {
                        path: Some(np.clone()),
                        lines: vec![line],
                    });
                    m.cur = Some(m.files.len() - 1);
                    m.cur_path = Some(np);
                }
                // and one record for X only
                let xm = format!("x{seq}");
                xfiles[xcur].1.extend(xm.as_bytes());
                xfiles[xcur].1.push(b'\n');
                lg::log_to(&*logger, log::Level::Info, "{X}", &xm);
                if interesting.1 {
                    interesting.2 = true;
                } else {
                    interesting.0 = true;
                }
            }
            Op::F => handle.flush(),
            Op::ExtRename | Op::ExtRemove | Op::ExtRenameCreate => {
                // only meaningful when the file the writer writes to exists at its path
                let Some(p) = m.cur_path.clone() else { continue };
                if !exists(&p) {
                    continue;
                }
                let cur = m.cur.unwrap();
                if m.files[cur].path.as_deref() != Some(&p) {
                    continue;
                }
                if *op == Op::ExtRenameCreate {
                    m.side += 1;
                    let to = p.parent().unwrap().join(format!("moved_{}.txt", m.side));
                    std::fs::rename(&p, &to).and_then(|()| std::fs::write(&p, b"")).map_err(|e| Fail {
                        clause: "machinery",
                        at: i,
                        detail: e.to_string(),
                    })?;
                    m.files[cur].path = Some(to);
                    m.files.push(PFile {
                        path: Some(p.clone()),
                        lines: Vec::new(),
                    });
                } else if *op == Op::ExtRename {
                    m.side += 1;
                    let to = p.parent().unwrap().join(format!("moved_{}.txt", m.side));
                    std::fs::rename(&p, &to).map_err(|e| Fail {
                        clause: "machinery",
                        at: i,
                        detail: e.to_string(),
                    })?;
                    m.files[cur].path = Some(to);
                } else {
                    std::fs::remove_file(&p).map_err(|e| Fail {
                        clause: "machinery",
                        at: i,
                        detail: e.to_string(),
                    })?;
                    m.files[cur].path = None;
                }
            }
            Op::ExtRenameX => {
                if exists(&xpath) && xfiles[xcur].0 == xpath {
                    xside += 1;
                    let to = xdir.join(format!("moved_x{xside}.txt"));
                    std::fs::rename(&xpath, &to).map_err(|e| Fail {
                        clause: "machinery",
                        at: i,
                        detail: e.to_string(),
                    })?;
                    xfiles[xcur].0 = to;
                }
            }
            Op::ReopenFault if append && m.cur.is_some() => {
                // a failure for real: the whole directory tree of the log files is moved away for
                // the duration of the call, so that no re-open (and no fallback) can succeed; the
                // error is returned and both writers keep the files they have open
                let away = env.dir.with_extension("away");
                std::fs::rename(&env.dir, &away).map_err(|e| Fail {
                    clause: "machinery",
                    at: i,
                    detail: format!("rename {}: {e}", env.dir.display()),
                })?;
                let r = handle.reopen_output();
                std::fs::rename(&away, &env.dir).map_err(|e| Fail {
                    clause: "machinery",
                    at: i,
                    detail: format!("rename back {}: {e}", away.display()),
                })?;
                if r.is_ok() {
                    return Err(Fail {
                        clause: "reopen-failure-unreported",
                        at: i,
                        detail: "the log directory was moved away, so no file could be re-opened, but reopen_output returned Ok".into(),
                    });
                }
            }
            Op::ReopenFault if !append && m.cur.is_some() && m.cur_path.as_ref().is_some_and(|p| !exists(p)) => {
                // another failure for real: the current file was moved or removed, and a
                // directory is in the way at its path for the duration of the call (the re-open
                // fails, creating a file next to it would succeed); the error is returned, the
                // writer keeps the file it has open, the additional writer is switched
                let p = m.cur_path.clone().unwrap();
                std::fs::create_dir(&p).map_err(|e| Fail {
                    clause: "machinery",
                    at: i,
                    detail: format!("mkdir {}: {e}", p.display()),
                })?;
                let r = handle.reopen_output();
                std::fs::remove_dir(&p).map_err(|e| Fail {
                    clause: "machinery",
                    at: i,
                    detail: format!("rmdir {}: {e}", p.display()),
                })?;
                if r.is_ok() {
                    return Err(Fail {
                        clause: "reopen-failure-unreported",
                        at: i,
                        detail: format!("a directory was at {} but reopen_output returned Ok", p.display()),
                    });
                }
                if xfiles[xcur].0 != xpath {
                    xfiles.push((xpath.clone(), Vec::new()));
                    xcur = xfiles.len() - 1;
                }
                // where the records go after the failure is not prescribed, as long as they are
                // not lost: either the writer keeps the file it had open, or it uses the visible
                // substitute that the re-open code creates next to the path
                let substitute = p.with_extension("ShortLivingTempFileForReOpen");
                if exists(&substitute) {
                    m.files.push(PFile {
                        path: Some(substitute),
                        lines: Vec::new(),
                    });
                    m.cur = Some(m.files.len() - 1);
                }
            }
            Op::Reopen | Op::ReopenFault => {
                let faulty = *op == Op::ReopenFault;
                let hits_before = {
                    let mut g = env.ctx.fs.lock().unwrap();
                    g.enabled = true;
                    let n = g.counts.get("reopen").copied().unwrap_or(0);
                    if faulty {
                        g.faults = vec![crate::hooks::FaultSpec {
                            site: "reopen".into(),
                            first_occ: n,
                            burst: 1,
                        }];
                    }
                    g.trace.len()
                };
                let r = handle.reopen_output();
                // which re-open failed (if any was attempted at all)?
                let failed_path: Option<PathBuf> = {
                    let mut g = env.ctx.fs.lock().unwrap();
                    g.faults.clear();
                    let hit = g.trace[hits_before..].iter().find(|(site, _, _)| *site == "reopen").map(|(_, _, p)| p.clone());
                    if faulty {
                        hit
                    } else {
                        None
                    }
                };
                match (&r, &failed_path) {
                    (Err(e), None) => {
                        return Err(Fail {
                            clause: "reopen-error",
                            at: i,
                            detail: e.to_string(),
                        })
                    }
                    (Ok(()), Some(p)) => {
                        return Err(Fail {
                            clause: "reopen-failure-unreported",
                            at: i,
                            detail: format!("re-opening {} failed (injected) but reopen_output returned Ok", p.display()),
                        })
                    }
                    _ => {}
                }
                let x_failed = failed_path.as_deref() == Some(xpath.as_path());
                let main_failed = failed_path.is_some() && !x_failed;
                // the additional writer is re-opened, too: a new file at its path if it was moved
                if !x_failed && xfiles[xcur].0 != xpath {
                    xfiles.push((xpath.clone(), Vec::new()));
                    xcur = xfiles.len() - 1;
                }
                if main_failed {
                    // the failed writer keeps writing to the file it has open
                } else if let Some(p) = m.cur_path.clone() {
                    // a new (or the same, if it still exists) file at the original path
                    let idx = m.files.iter().position(|f| f.path.as_deref() == Some(&p));
                    let idx = idx.unwrap_or_else(|| {
                        m.files.push(PFile {
                            path: Some(p.clone()),
                            lines: Vec::new(),
                        });
                        m.files.len() - 1
                    });
                    m.cur = Some(idx);
                    interesting.1 = true;
                }
            }
            Op::R => {
                let before_r: Vec<String> = family::list_names(&m.fam.dir);
                let r = handle.trigger_rotation();
                if let Err(e) = r {
                    return Err(Fail {
                        clause: "rotation-error",
                        at: i,
                        detail: e.to_string(),
                    });
                }
                // rotation acts only on an initialised, rotating writer
                if let (Some(cur), Some(nk)) = (m.cur, m.fam.rot) {
                    let p = m.cur_path.clone().unwrap();
                    match nk {
                        NamingK::Numbers => {
                            // rCURRENT -> rNNNNN (if it still is at its path), fresh rCURRENT
                            let n = m.counters.get(&m.fam).copied().unwrap_or(0);
                            if let Some(at_path) = m.files.iter().position(|f| f.path.as_deref() == Some(&p)) {
                                m.files[at_path].path = Some(m.fam.dir.join(format!("{}_r{n:05}.log", m.fam.base)));
                                m.counters.insert(m.fam.clone(), n + 1);
                            }
                            let _ = cur;
                            m.files.push(PFile {
                                path: Some(p.clone()),
                                lines: Vec::new(),
                            });
                            m.cur = Some(m.files.len() - 1);
                        }
                        _ => {
                            // the name of the next file is read off the directory (names are
                            // C16's subject): exactly one new family file must have appeared
                            let after: Vec<String> = family::list_names(&m.fam.dir);
                            let new: Vec<&String> = after.iter().filter(|n| !before_r.contains(n)).collect();
                            if new.len() != 1 {
                                return Err(Fail {
                                    clause: "rotation-effect",
                                    at: i,
                                    detail: format!("trigger_rotation created {} new files: {new:?}", new.len()),
                                });
                            }
                            let np = m.fam.dir.join(new[0]);
                            m.files.push(PFile {
                                path: Some(np.clone()),
                                lines: Vec::new(),
                            });
                            m.cur = Some(m.files.len() - 1);
                            m.cur_path = Some(np);
                        }
                    }
                }
            }
            Op::ResetBase | Op::ResetDir | Op::ResetRot => {
                resets += 1;
                let mut fam = m.fam.clone();
                match *op {
                    Op::ResetBase => fam.base = format!("fam{resets}"),
                    Op::ResetDir => fam.dir = env.dir.join(format!("dir{resets}")),
                    _ => {
                        fam.rot = match fam.rot {
                            None => Some(NamingK::Numbers),
                            Some(_) => None,
                        }
                    }
                }
                let cfg = cfg_for(mode, &fam, append);
                let b = cfg.flw_builder(&fam.dir).write_mode(cfg.mode.write_mode().clone());
                // the Logger strips the flush interval from the write mode of its file writer
                let b = match mode {
                    ModeK::BufFlush(c, _) => b.write_mode(flexi_logger::WriteMode::BufferDontFlushWith(c)),
                    _ => b,
                };
                if let Err(e) = handle.reset_flw(&b) {
                    return Err(Fail {
                        clause: "reset-error",
                        at: i,
                        detail: e.to_string(),
                    });
                }
                m.fam = fam;
                m.cur = None;
                m.cur_path = None;
                interesting.1 = true;
            }
        }
        env.observe();
    }
    handle.shutdown();
    drop(logger);
    drop(handle);
    env.leave();
    let errs = env.errlines();
    if !errs.is_empty() {
        return Err(Fail {
            clause: "error-channel",
            at: word.len(),
            detail: format!("{errs:?}"),
        });
    }
    // compare every physical file with the model; no unexpected files
    let mut expected: BTreeMap<PathBuf, Vec<u8>> = BTreeMap::new();
    for (p, c) in &xfiles {
        expected.entry(p.clone()).or_default().extend(c);
    }
    for f in &m.files {
        if let Some(p) = &f.path {
            expected.entry(p.clone()).or_default().extend(f.lines.concat());
        }
    }
    let mut actual: BTreeMap<PathBuf, Vec<u8>> = BTreeMap::new();
    let mut dirs = vec![env.dir.clone()];
    while let Some(d) = dirs.pop() {
        for n in family::list_names(&d) {
            let p = d.join(&n);
            if p.is_dir() {
                dirs.push(p);
            } else {
                actual.insert(p.clone(), std::fs::read(&p).unwrap_or_default());
            }
        }
    }
    // files the model expects to be empty may legitimately not exist (never opened) and vice versa
    let strip = |m: &BTreeMap<PathBuf, Vec<u8>>| -> BTreeMap<String, String> {
        m.iter()
            .filter(|(_, c)| !c.is_empty())
            .map(|(p, c)| (p.strip_prefix(&env.dir).unwrap_or(p).display().to_string(), String::from_utf8_lossy(c).to_string()))
            .collect()
    };
    let (e, a) = (strip(&expected), strip(&actual));
    if e != a {
        return Err(Fail {
            clause: "file-content!=model",
            at: word.len(),
            detail: format!("after shutdown\n   files on disk : {a:?}\n   model expects : {e:?}"),
        });
    }
    let shape: Vec<usize> = m.files.iter().map(|f| f.lines.len()).collect();
    Ok((shape, interesting.0 && interesting.1 && interesting.2))
}

fn cause(mode: ModeK, rot: Option<NamingK>, append: bool, word: &[Op], at: usize) -> String {
    // the last switching operation before the divergence
    let sw = word[..at.min(word.len())]
        .iter()
        .rev()
        .find(|o| matches!(o, Op::Reopen | Op::ReopenFault | Op::ResetBase | Op::ResetDir | Op::ResetRot | Op::R | Op::ExtRename | Op::ExtRemove | Op::ExtRenameX | Op::ExtRenameCreate))
        .map_or("-".to_string(), |o| format!("{o:?}"));
    format!("{sw}/{}/{}{}", super::c08::mode_class(mode), rot.map_or("no-rotation", |n| n.short()), if append { "" } else { "/no-append" })
}

fn judge(mode: ModeK, rot: Option<NamingK>, append: bool, word: &[Op], case: Value) -> (Option<Violation>, Option<(Vec<usize>, bool)>) {
    let ww = word.to_vec();
    match run_isolated(Duration::from_secs(30), move || run_word(mode, rot, append, &ww)) {
        Ran::Done(Ok(x)) => (None, Some(x)),
        Ran::Done(Err(f)) => (Some(Violation::new(f.clause, cause(mode, rot, append, word, f.at), format!("mode={mode:?} rotation={rot:?} append={append}\n  word={word:?}\n  at op {}: {}", f.at, f.detail), case)), None),
        Ran::Panicked(m) => (Some(Violation::new("panic", cause(mode, rot, append, word, word.len()), format!("mode={mode:?} rotation={rot:?} word={word:?}: {m}"), case)), None),
        Ran::Hung => (Some(Violation::new("hang", cause(mode, rot, append, word, word.len()), format!("mode={mode:?} rotation={rot:?} word={word:?}"), case)), None),
    }
}

fn decode(unit: usize) -> (ModeK, Option<NamingK>, bool, usize) {
    let a = alphabet().len();
    let r = rots().len();
    let m = modes().len();
    (modes()[(unit / (a * r)) % m], rots()[(unit / a) % r], unit / (a * r * m) == 0, unit % a)
}

/// The fan-out of reopen_output for `log_to_file_and_writer` (a file plus a second
/// FileLogWriter that gets every record): W W, both files renamed externally, reopen_output(),
/// W W, shutdown - for both writers the first two records are in the renamed file and the last
/// two in a new file at the original path.
fn file_and_writer(mode: ModeK) -> Result<(), Fail> {
    let env = Env::new("c18f");
    env.enter();
    let sdir = env.dir.join("side");
    let second = flexi_logger::writers::FileLogWriter::builder(flexi_logger::FileSpec::default().directory(&sdir).basename("side").suppress_timestamp())
        .format(lg::payload_format)
        .write_mode(mode.write_mode())
        .try_build()
        .map_err(|e| Fail {
            clause: "build-error",
            at: 0,
            detail: e.to_string(),
        })?;
    let (logger, handle) = flexi_logger::Logger::with(flexi_logger::LogSpecification::trace())
        .log_to_file_and_writer(flexi_logger::FileSpec::default().directory(&env.dir).basename("app").suppress_timestamp(), Box::new(second))
        .format(lg::payload_format)
        .write_mode(mode.write_mode())
        .error_channel(flexi_logger::ErrorChannel::File(env.err.clone()))
        .build()
        .map_err(|e| Fail {
            clause: "build-error",
            at: 0,
            detail: e.to_string(),
        })?;
    let msgs: Vec<String> = (0..4).map(|i| lg::payload(0, i, 8)).collect();
    lg::log_info(&*logger, &msgs[0]);
    lg::log_info(&*logger, &msgs[1]);
    let files = [(env.dir.join("app.log"), env.dir.join("app.moved")), (sdir.join("side.log"), sdir.join("side.moved"))];
    for (p, moved) in &files {
        std::fs::rename(p, moved).map_err(|e| Fail {
            clause: "machinery",
            at: 2,
            detail: format!("rename {}: {e}", p.display()),
        })?;
    }
    let r = handle.reopen_output();
    lg::log_info(&*logger, &msgs[2]);
    lg::log_info(&*logger, &msgs[3]);
    handle.shutdown();
    drop(logger);
    drop(handle);
    env.leave();
    if let Err(e) = r {
        return Err(Fail {
            clause: "reopen-error",
            at: 3,
            detail: e.to_string(),
        });
    }
    for (i, (p, moved)) in files.iter().enumerate() {
        let old = String::from_utf8_lossy(&std::fs::read(moved).unwrap_or_default()).to_string();
        let new = String::from_utf8_lossy(&std::fs::read(p).unwrap_or_default()).to_string();
        if old != format!("{}\n{}\n", msgs[0], msgs[1]) || new != format!("{}\n{}\n", msgs[2], msgs[3]) {
            return Err(Fail {
                clause: "file-content!=model",
                at: 5,
                detail: format!("log_to_file_and_writer, W W [both files renamed] reopen_output W W: {} writer: renamed file holds {old:?}, the file at the original path {new:?}", ["file", "second"][i]),
            });
        }
    }
    Ok(())
}

/// stdout is the primary output, two FileLogWriters are additional writers (one direct, one
/// buffered): W W to both, both files renamed, reopen_output(), W W, shutdown.
fn stdout_primary() -> Result<(), Fail> {
    let env = Env::new("c18o");
    env.enter();
    let sc = crate::scratch::Scratch::new("c18oc");
    let cap = crate::capture::FdCapture::start(1, sc.path().join("o.txt"));
    let mk = |name: &str, mode: flexi_logger::WriteMode| {
        flexi_logger::writers::FileLogWriter::builder(flexi_logger::FileSpec::default().directory(env.dir.join(name)).basename(name).suppress_timestamp())
            .format(lg::payload_format)
            .write_mode(mode)
            .try_build()
    };
    let build = || -> Result<_, String> {
        let x = mk("x", flexi_logger::WriteMode::Direct).map_err(|e| e.to_string())?;
        let y = mk("y", flexi_logger::WriteMode::BufferDontFlushWith(64)).map_err(|e| e.to_string())?;
        flexi_logger::Logger::with(flexi_logger::LogSpecification::trace())
            .log_to_stdout()
            .format(lg::payload_format)
            .add_writer("X", Box::new(x))
            .add_writer("Y", Box::new(y))
            .error_channel(flexi_logger::ErrorChannel::File(env.err.clone()))
            .build()
            .map_err(|e| e.to_string())
    };
    let (logger, handle) = match build() {
        Ok(x) => x,
        Err(e) => {
            if let Some(c) = cap {
                c.finish();
            }
            return Err(Fail {
                clause: "build-error",
                at: 0,
                detail: e,
            });
        }
    };
    let msgs: Vec<String> = (0..4).map(|i| lg::payload(0, i, 8)).collect();
    let w = |i: usize| lg::log_to(&*logger, log::Level::Info, "{X,Y}", &msgs[i]);
    w(0);
    w(1);
    let files: Vec<(PathBuf, PathBuf)> = ["x", "y"].iter().map(|n| (env.dir.join(n).join(format!("{n}.log")), env.dir.join(n).join(format!("{n}.moved")))).collect();
    let mut renamed = true;
    for (p, moved) in &files {
        renamed &= std::fs::rename(p, moved).is_ok();
    }
    let r = handle.reopen_output();
    w(2);
    w(3);
    handle.shutdown();
    drop(logger);
    drop(handle);
    if let Some(c) = cap {
        c.finish();
    }
    env.leave();
    if !renamed {
        return Err(Fail {
            clause: "machinery",
            at: 2,
            detail: "rename failed".into(),
        });
    }
    if let Err(e) = r {
        return Err(Fail {
            clause: "reopen-error",
            at: 3,
            detail: e.to_string(),
        });
    }
    for (i, (p, moved)) in files.iter().enumerate() {
        let old = String::from_utf8_lossy(&std::fs::read(moved).unwrap_or_default()).to_string();
        let new = String::from_utf8_lossy(&std::fs::read(p).unwrap_or_default()).to_string();
        if old != format!("{}\n{}\n", msgs[0], msgs[1]) || new != format!("{}\n{}\n", msgs[2], msgs[3]) {
            return Err(Fail {
                clause: "file-content!=model",
                at: 5,
                detail: format!("log_to_stdout with two additional FileLogWriters, W W [both files renamed] reopen_output W W: writer {}: renamed file holds {old:?}, the file at the original path {new:?}", ["X (direct)", "Y (buffered)"][i]),
            });
        }
    }
    Ok(())
}

/// The path of the log file is a symbolic link (to a file in another directory): W W, the link is
/// renamed externally, reopen_output(), W W, shutdown - the first two records are in the file the
/// link points to, the last two in a new regular file at the original path.
fn symlinked_file(mode: ModeK) -> Result<(), Fail> {
    let env = Env::new("c18s");
    env.enter();
    let real_dir = env.root.path().join("elsewhere");
    std::fs::create_dir_all(&real_dir).ok();
    let real = real_dir.join("t.log");
    std::fs::write(&real, b"").ok();
    let path = env.dir.join("app.log");
    std::os::unix::fs::symlink(&real, &path).map_err(|e| Fail {
        clause: "machinery",
        at: 0,
        detail: e.to_string(),
    })?;
    let (logger, handle) = flexi_logger::Logger::with(flexi_logger::LogSpecification::trace())
        .log_to_file(flexi_logger::FileSpec::default().directory(&env.dir).basename("app").suppress_timestamp())
        .append()
        .format(lg::payload_format)
        .write_mode(mode.write_mode())
        .error_channel(flexi_logger::ErrorChannel::File(env.err.clone()))
        .build()
        .map_err(|e| Fail {
            clause: "build-error",
            at: 0,
            detail: e.to_string(),
        })?;
    let msgs: Vec<String> = (0..4).map(|i| lg::payload(0, i, 8)).collect();
    lg::log_info(&*logger, &msgs[0]);
    lg::log_info(&*logger, &msgs[1]);
    std::fs::rename(&path, env.dir.join("app.moved")).map_err(|e| Fail {
        clause: "machinery",
        at: 2,
        detail: e.to_string(),
    })?;
    let r = handle.reopen_output();
    lg::log_info(&*logger, &msgs[2]);
    lg::log_info(&*logger, &msgs[3]);
    handle.shutdown();
    drop(logger);
    drop(handle);
    env.leave();
    if let Err(e) = r {
        return Err(Fail {
            clause: "reopen-error",
            at: 3,
            detail: e.to_string(),
        });
    }
    let old = String::from_utf8_lossy(&std::fs::read(&real).unwrap_or_default()).to_string();
    let new = String::from_utf8_lossy(&std::fs::read(&path).unwrap_or_default()).to_string();
    let regular = std::fs::symlink_metadata(&path).is_ok_and(|m| m.is_file());
    if old != format!("{}\n{}\n", msgs[0], msgs[1]) || new != format!("{}\n{}\n", msgs[2], msgs[3]) || !regular {
        return Err(Fail {
            clause: "file-content!=model",
            at: 5,
            detail: format!("the log file path is a symbolic link; W W [link renamed] reopen_output W W: the file the link pointed to holds {old:?}, the file at the original path (regular: {regular}) {new:?}"),
        });
    }
    Ok(())
}


// ---------------------------------------------------------------- E2: reopen_output() races with a logging thread

#[derive(Debug, Clone, PartialEq)]
struct RaceObs {
    result: Result<(), (String, String)>,
    shape: String,
}

fn race_modes() -> Vec<ModeK> {
    vec![ModeK::Direct, ModeK::BufDont(8), ModeK::BufDont(64)]
}

fn race_cfg() -> crate::sched::SchedCfg {
    crate::sched::SchedCfg {
        ignore: vec!["flw_pool_pop", "set_max_level", "symlink_remove", "symlink_create", "flush", "std_pool_pop"],
        detect_real_blocking: true,
        // the state mutex is not modelled from its hooks: a thread really blocks on it, so a
        // re-open that does not wait for the lock is not masked by the model
        nonblocking_locks: vec!["flw_state"],
        ..crate::sched::SchedCfg::default()
    }
}

/// One record, then thread `log` writes two records while thread `reopen` renames the log file
/// away and calls reopen_output(); after both have ended one more record, shutdown. Judged: a
/// re-open that returned Ok has created the file at its path again, the record logged after it is
/// at the end of that file, and the two files together hold every record once, in logging order
/// per thread.
fn race_body(mode: ModeK) -> std::sync::Arc<dyn Fn(&std::sync::Arc<crate::sched::Sched>) -> RaceObs + Send + Sync> {
    use std::sync::{Arc, Mutex};
    Arc::new(move |s: &Arc<crate::sched::Sched>| {
        let env = Env::in_current("c18r");
        let mut cfg = Cfg::norot();
        cfg.mode = mode;
        let (logger, handle) = match cfg.logger(&env.dir, &env.err).build() {
            Ok(x) => x,
            Err(e) => {
                return RaceObs {
                    result: Err(("build-error".into(), e.to_string())),
                    shape: String::new(),
                }
            }
        };
        let logger: Arc<Box<dyn Log>> = Arc::new(logger);
        let cur = env.dir.join("app.log");
        let moved = env.root.path().join("moved-away.log");
        lg::log_info(&**logger, "0.0:first");
        let l1 = Arc::clone(&logger);
        let t1 = s.spawn("log", move || {
            lg::log_info(&**l1, "1.0:while-a");
            lg::log_info(&**l1, "1.1:while-b");
        });
        let res: Arc<Mutex<Option<(bool, bool)>>> = Arc::new(Mutex::new(None));
        let (h2, cur2, moved2, res2) = (handle.clone(), cur.clone(), moved.clone(), Arc::clone(&res));
        let t2 = s.spawn("reopen", move || {
            let renamed = std::fs::rename(&cur2, &moved2).is_ok();
            let ok = h2.reopen_output().is_ok();
            let there = cur2.exists();
            *res2.lock().unwrap() = Some((ok && renamed, there));
            drop(h2);
        });
        s.join(t1);
        s.join(t2);
        lg::log_info(&**logger, "0.1:last");
        handle.shutdown();
        drop(handle);
        drop(logger);
        let a = String::from_utf8_lossy(&std::fs::read(&moved).unwrap_or_default()).to_string();
        let b = String::from_utf8_lossy(&std::fs::read(&cur).unwrap_or_default()).to_string();
        let shape = format!("{}|{}", a.lines().map(|l| &l[..3]).collect::<Vec<_>>().join(","), b.lines().map(|l| &l[..3]).collect::<Vec<_>>().join(","));
        let result = (|| {
            let (ok, there) = res.lock().unwrap().unwrap_or((false, false));
            if ok && !there {
                return Err(("reopen-without-effect".to_string(), format!("the log file was renamed away, reopen_output() returned Ok, but there is no file at {} when it returns (another thread was logging at that moment); moved file {a:?}, file at the path now {b:?}", cur.display())));
            }
            if ok && !b.ends_with("0.1:last\n") {
                return Err(("record-in-old-file".to_string(), format!("reopen_output() returned Ok, the record logged after it must be at the end of the file at the log path: moved file {a:?}, file at the path {b:?}")));
            }
            let all = format!("{a}{b}");
            let lines: Vec<&str> = all.lines().collect();
            for want in ["0.0:first", "1.0:while-a", "1.1:while-b", "0.1:last"] {
                if lines.iter().filter(|l| **l == want).count() != 1 {
                    return Err(("line-missing".to_string(), format!("record {want:?} is not exactly once in the two files: moved file {a:?}, file at the path {b:?}")));
                }
            }
            let pos = |w: &str| lines.iter().position(|l| *l == w).unwrap_or(0);
            if pos("1.0:while-a") > pos("1.1:while-b") || pos("0.0:first") > pos("0.1:last") || lines.len() != 4 || !all.ends_with('\n') {
                return Err(("order-broken".to_string(), format!("moved file {a:?}, file at the path {b:?}")));
            }
            let errs = env.errlines();
            if !errs.is_empty() {
                return Err(("error-channel".to_string(), format!("{errs:?}")));
            }
            Ok(())
        })();
        RaceObs { result, shape }
    })
}

fn run_race_unit(tier: &str, idx: usize, out: &mut Out) {
    use crate::sched::{self, Abort};
    let mode = race_modes()[idx];
    let bound = if tier == "quick" { 2 } else { 3 };
    let cfg = race_cfg();
    let b = race_body(mode);
    let name = format!("reopen-race/{}", super::c08::mode_class(mode));
    let clock = || Some(crate::hooks::VClock::new(crate::hooks::base_instant()));
    let mut first_bad: Option<Violation> = None;
    let mut machinery: Option<String> = None;
    let mut outcomes: BTreeMap<String, u64> = BTreeMap::new();
    let stats = sched::explore(&cfg, Some(bound), 100_000, &clock, b.clone(), &mut |choices, ex| {
        if ex.stalled {
            machinery = Some(format!("execution stalled; schedule {choices:?}"));
            return false;
        }
        if let Some(Abort::Diverged(m)) = &ex.abort {
            machinery = Some(format!("replay diverged: {m}; schedule {choices:?}"));
            return false;
        }
        let case = json!({"reopen_race": idx, "schedule": choices});
        let bad: Option<(String, String)> = match (&ex.abort, &ex.obs) {
            (Some(Abort::Deadlock(d)), _) => Some(("deadlock".into(), d.clone())),
            (_, Some(o)) => match &o.result {
                Ok(()) => {
                    *outcomes.entry(o.shape.clone()).or_insert(0) += 1;
                    None
                }
                Err((c, d)) => Some((c.clone(), d.clone())),
            },
            _ => None,
        };
        if let Some((c, d)) = bad {
            if first_bad.as_ref().map_or(true, |v| v.case["schedule"].as_array().map_or(0, Vec::len) > choices.len()) {
                first_bad = Some(Violation::new(&c, format!("Reopen/{}/racing-with-a-logging-thread", super::c08::mode_class(mode)), format!("mode={mode:?} schedule={choices:?}\n  {d}"), case));
            }
        }
        true
    });
    out.evaluations += stats.schedules;
    out.traces_validated += stats.schedules;
    out.transitions += stats.choice_points;
    out.count("reopen_race_schedules", stats.schedules);
    for (k, n) in outcomes {
        *out.outcomes.entry(format!("{name}: {k}")).or_insert(0) += n;
    }
    if stats.capped {
        out.capped = true;
    }
    if let Some(m) = machinery {
        out.violation(Violation::new("machinery", "scheduler", format!("{name}: {m}"), json!({"reopen_race": idx})));
        out.capped = true;
        return;
    }
    if let Some(v) = first_bad {
        let sch: Vec<usize> = v.case["schedule"].as_array().into_iter().flatten().filter_map(|x| x.as_u64().map(|n| n as usize)).collect();
        let e1 = sched::run_once(&cfg, &sch, clock(), b.clone());
        let e2 = sched::run_once(&cfg, &sch, clock(), b.clone());
        let k = |e: &sched::Execution<RaceObs>| (e.abort.is_some(), e.obs.as_ref().map(|o| o.result.as_ref().err().map(|x| x.0.clone())));
        if k(&e1) == k(&e2) && (e1.abort.is_some() || e1.obs.as_ref().is_some_and(|o| o.result.is_err())) {
            out.violation(v);
        } else {
            out.violation(Violation::new("nondeterministic", "replay-diverged", v.detail.clone(), v.case.clone()));
        }
    }
}

fn run_unit(tier: &str, unit: usize, out: &mut Out) {
    if (3..3 + race_modes().len()).contains(&unit) {
        run_race_unit(tier, unit - 3, out);
    }
    if unit == 0 {
        out.evaluations += 1;
        let case = json!({"stdout_primary": true});
        match run_isolated(Duration::from_secs(30), stdout_primary) {
            Ran::Done(Ok(())) => {}
            Ran::Done(Err(f)) => out.violation(Violation::new(f.clause, "Reopen/stdout-primary+file-writers".to_string(), f.detail, case)),
            Ran::Panicked(m) => out.violation(Violation::new("panic", "stdout-primary", m, case)),
            Ran::Hung => out.violation(Violation::new("hang", "stdout-primary", String::new(), case)),
        }
    }
    if unit < modes().len() {
        let mode = modes()[unit];
        out.evaluations += 1;
        let case = json!({"symlinked_file": unit});
        match run_isolated(Duration::from_secs(30), move || symlinked_file(mode)) {
            Ran::Done(Ok(())) => {}
            Ran::Done(Err(f)) => out.violation(Violation::new(f.clause, format!("Reopen/{}/symlinked-log-file", super::c08::mode_class(mode)), format!("mode={mode:?}: {}", f.detail), case)),
            Ran::Panicked(m) => out.violation(Violation::new("panic", "symlinked-log-file", m, case)),
            Ran::Hung => out.violation(Violation::new("hang", "symlinked-log-file", String::new(), case)),
        }
    }
    if unit < modes().len() {
        let mode = modes()[unit];
        out.evaluations += 1;
        out.count("file_and_writer_cases", 1);
        let case = json!({"file_and_writer": unit});
        match run_isolated(Duration::from_secs(30), move || file_and_writer(mode)) {
            Ran::Done(Ok(())) => {}
            Ran::Done(Err(f)) => out.violation(Violation::new(f.clause, format!("Reopen/{}/file+second-writer", super::c08::mode_class(mode)), format!("mode={mode:?}: {}", f.detail), case)),
            Ran::Panicked(m) => out.violation(Violation::new("panic", "file+second-writer", m, case)),
            Ran::Hung => out.violation(Violation::new("hang", "file+second-writer", String::new(), case)),
        }
    }
    let (mode, rot, append, first) = decode(unit);
    let alpha = alphabet();
    let d = depth(tier);
    for_each_word(alpha.len(), d - 1, |rest| {
        let mut w = vec![first];
        w.extend_from_slice(rest);
        let word: Vec<Op> = w.iter().map(|i| alpha[*i]).collect();
        // R without rotation is a no-op: skip (covered by the rotating configurations)
        if rot.is_none() && word.contains(&Op::R) && !word.contains(&Op::ResetRot) {
            return;
        }
        let case = json!({"unit": unit, "word": w});
        let (v, r) = judge(mode, rot, append, &word, case.clone());
        out.evaluations += 1;
        out.traces_validated += 1;
        out.transitions += word.len() as u64 + 1;
        if let Some((shape, nt)) = r {
            out.state(&(unit / alpha.len(), &shape));
            if nt {
                out.nontrivial(&(unit, &w));
            }
            out.outcome(format!("physical_files={}", shape.len()));
            if out.samples.len() < 3 && nt && w.len() == d && shape.len() >= 3 {
                out.sample(json!({"mode": format!("{mode:?}"), "rotation": format!("{rot:?}"), "word": format!("{word:?}"), "records_per_physical_file": shape}));
            }
        }
        if let Some(v) = v {
            let (v2, _) = judge(mode, rot, append, &word, case);
            match v2 {
                Some(v2) if v2.key() == v.key() => out.violation(v),
                _ => out.violation(Violation::new("nondeterministic", "replay-diverged", v.detail.clone(), v.case.clone())),
            }
        }
    });
    out.max("max_depth_completed", d as u64);
}

fn replay(case: &Value) -> Vec<Violation> {
    if let Some(idx) = case["reopen_race"].as_u64() {
        let Some(mode) = race_modes().get(idx as usize).copied() else { return vec![] };
        let sch: Vec<usize> = case["schedule"].as_array().into_iter().flatten().filter_map(|x| x.as_u64().map(|n| n as usize)).collect();
        let mut cfg = race_cfg();
        cfg.keep_log = true;
        let ex = crate::sched::run_once(&cfg, &sch, Some(crate::hooks::VClock::new(crate::hooks::base_instant())), race_body(mode));
        println!("replay C18 (reopen_output racing with a logging thread): mode={mode:?} schedule={sch:?}");
        for l in &ex.log {
            println!("  {l}");
        }
        println!("  observation: {:?} abort={:?}", ex.obs, ex.abort);
        let cause = format!("Reopen/{}/racing-with-a-logging-thread", super::c08::mode_class(mode));
        return match (&ex.abort, &ex.obs) {
            (Some(crate::sched::Abort::Deadlock(d)), _) => vec![Violation::new("deadlock", cause, d.clone(), case.clone())],
            (_, Some(o)) => o.result.as_ref().err().map(|(c, d)| Violation::new(c, cause, d.clone(), case.clone())).into_iter().collect(),
            _ => vec![],
        };
    }
    if case["stdout_primary"].as_bool() == Some(true) {
        println!("replay C18: stdout as primary output, two additional FileLogWriters");
        return match run_isolated(Duration::from_secs(30), stdout_primary) {
            Ran::Done(Ok(())) => vec![],
            Ran::Done(Err(f)) => vec![Violation::new(f.clause, "Reopen/stdout-primary+file-writers".to_string(), f.detail, case.clone())],
            Ran::Panicked(m) => vec![Violation::new("panic", "stdout-primary", m, case.clone())],
            Ran::Hung => vec![Violation::new("hang", "stdout-primary", String::new(), case.clone())],
        };
    }
    if let Some(u) = case["symlinked_file"].as_u64() {
        let mode = modes()[(u as usize).min(modes().len() - 1)];
        println!("replay C18: the log file path is a symbolic link, mode {mode:?}");
        return match run_isolated(Duration::from_secs(30), move || symlinked_file(mode)) {
            Ran::Done(Ok(())) => vec![],
            Ran::Done(Err(f)) => vec![Violation::new(f.clause, format!("Reopen/{}/symlinked-log-file", super::c08::mode_class(mode)), f.detail, case.clone())],
            Ran::Panicked(m) => vec![Violation::new("panic", "symlinked-log-file", m, case.clone())],
            Ran::Hung => vec![Violation::new("hang", "symlinked-log-file", String::new(), case.clone())],
        };
    }
    if let Some(u) = case["file_and_writer"].as_u64() {
        let mode = modes()[(u as usize).min(modes().len() - 1)];
        println!("replay C18: log_to_file_and_writer, mode {mode:?}");
        return match run_isolated(Duration::from_secs(30), move || file_and_writer(mode)) {
            Ran::Done(Ok(())) => vec![],
            Ran::Done(Err(f)) => vec![Violation::new(f.clause, format!("Reopen/{}/file+second-writer", super::c08::mode_class(mode)), f.detail, case.clone())],
            Ran::Panicked(m) => vec![Violation::new("panic", "file+second-writer", m, case.clone())],
            Ran::Hung => vec![Violation::new("hang", "file+second-writer", String::new(), case.clone())],
        };
    }
    let unit = case["unit"].as_u64().unwrap_or(0) as usize;
    let (mode, rot, append, _) = decode(unit);
    let alpha = alphabet();
    let w: Vec<usize> = case["word"].as_array().into_iter().flatten().filter_map(|x| x.as_u64().map(|n| n as usize)).collect();
    let word: Vec<Op> = w.iter().filter_map(|i| alpha.get(*i).copied()).collect();
    println!("replay C18: mode={mode:?} rotation={rot:?} append={append} word={word:?}");
    judge(mode, rot, append, &word, case.clone()).0.into_iter().collect()
}
