//! C15 — file contents do not depend on the write mode; raw byte chunks pass unchanged.
//!
//! Differential exploration: every word of operations (records) and every sequence of raw
//! chunks up to a depth bound is executed under each write mode; the ordered list of file
//! contents after shutdown must equal that of direct mode / the concatenation of the chunks.
//! Asynchronous modes run under the controlled scheduler with the two canonical schedules
//! (writer thread as late as possible / as early as possible), which makes them deterministic.
use super::{all_workers, default_cap, Prop};
use crate::env::Env;
use crate::family;
use crate::fl::{HOp, Hist};
use crate::lg::{Cfg, CleanK, CritK, ModeK, NamingK};
use crate::report::{Meta, Out, Violation};
use crate::sched::{self, Abort, Sched, SchedCfg};
use crate::{for_each_word, run_isolated, Ran};
use serde_json::{json, Value};
use std::io::Write;
use std::sync::Arc;
use std::time::Duration;

pub fn prop() -> Prop {
    Prop {
        id: "C15",
        meta,
        units,
        run_unit,
        replay,
        bounds,
        wall_cap_s: default_cap,
        max_workers: all_workers,
    }
}

fn meta() -> Meta {
    Meta {
        id: "C15",
        level: "model_checking",
        rule: "records: every word up to the depth bound over {W(1), W(5), W(N), W(3N), W(500) (more than twice the capacity of the thread-local format buffer), R, F, Reopen (the file still in place), reset_flw onto the same file (append), the same with a builder that asks for the other line ending} x {no rotation, Size(N)+Numbers, Size(N)+TimestampsDirect}; chunks: every sequence of <= 3 (quick) / 4 (thorough) chunks over {empty, a, F, S, LF, ab+LF, F+LF, 0x00, 0xFF 0xFE, 10 KiB, and three chunks of message-capacity+1 bytes ending in S or F}, plus each of the 256 single-byte chunks alone and between two x chunks, with and without rotation; each executed under Direct, BufferDontFlush(4), BufferDontFlush(4096), BufferAndFlush(64), Async{1,4}, Async{2,64}, Async default (async: under the late-writer and the early-writer schedule); states = distinct (rotation config, file-size vector) reached in direct mode; non-trivial = the direct-mode run produced >= 2 files or a chunk that equals a control message is present; a fourth rotation setting compresses every rotated file; for chunk sequences the list of files (names and contents) of every mode equals that of direct mode; reset_flw onto the same file (append) is a letter of the record alphabet; for chunk sequences with rotation the files of direct mode equal the prediction of the size criterion (an empty chunk, too, goes to the next file when the current one exceeds N)",
        assumptions: vec![
            "N = 12; virtual clock frozen, so names are comparable across modes".into(),
            "asynchronous runs are serialised by the controlled scheduler (two canonical schedules), not free running".into(),
        ],
    }
}

const N: u64 = 12;

fn modes() -> Vec<ModeK> {
    vec![
        ModeK::BufDont(4),
        ModeK::BufDont(4096),
        ModeK::BufFlush(64, 3_600_000),
        ModeK::Async(1, 4, 0),
        ModeK::Async(2, 64, 0),
        ModeK::AsyncDefault,
    ]
}
fn rotations() -> Vec<Option<NamingK>> {
    vec![None, Some(NamingK::Numbers), Some(NamingK::TimestampsDirect), Some(NamingK::NumbersDirect)]
}
fn rec_alphabet() -> Vec<HOp> {
    vec![HOp::W(5), HOp::W(1), HOp::W(N as usize), HOp::W(3 * N as usize), HOp::R, HOp::F, HOp::Reopen, HOp::ResetSame, HOp::W(500), HOp::ResetOtherEnding]
}
fn chunk_alphabet() -> Vec<Vec<u8>> {
    vec![
        b"a".to_vec(),
        b"".to_vec(),
        b"F".to_vec(),
        b"S".to_vec(),
        b"\n".to_vec(),
        b"ab\n".to_vec(),
        b"F\n".to_vec(),
        vec![0u8],
        vec![0xFF, 0xFE],
        vec![b'k'; 10 * 1024],
        // chunks one byte longer than a message capacity in use (4, 64, default 200) whose last
        // byte equals a control message
        b"wwwwS".to_vec(),
        [vec![b'y'; 64], b"F".to_vec()].concat(),
        [vec![b'z'; 200], b"S".to_vec()].concat(),
    ]
}

fn rec_depth(tier: &str) -> usize {
    if tier == "quick" {
        3
    } else {
        5
    }
}
fn chunk_depth(tier: &str) -> usize {
    if tier == "quick" {
        3
    } else {
        4
    }
}

// units: records: (rotation, first letter); chunks: (rotation(2), first chunk); bytes: 2 x 16
fn n_rec_units() -> usize {
    rotations().len() * rec_alphabet().len()
}
fn n_chunk_units() -> usize {
    2 * chunk_alphabet().len()
}
fn units(_tier: &str) -> usize {
    n_rec_units() + n_chunk_units() + 32
}
fn bounds(tier: &str) -> Value {
    json!({"record_depth": rec_depth(tier), "chunk_depth": chunk_depth(tier), "modes_compared_with_direct": modes().len(), "N": N})
}

fn cfg_for(rot: Option<NamingK>, mode: ModeK) -> Cfg {
    let mut cfg = match rot {
        None => Cfg::norot(),
        // NumbersDirect stands for "with a cleanup that compresses every rotated file at once"
        Some(NamingK::NumbersDirect) => Cfg::rot(CritK::Size(N), NamingK::NumbersDirect, CleanK::Gz(100)),
        Some(n) => Cfg::rot(CritK::Size(N), n, CleanK::Never),
    };
    cfg.mode = mode;
    // (appending: a reset onto the same file continues it)
    cfg.append = true;
    cfg
}

type Files = Vec<(String, Vec<u8>)>;

fn read_files(env: &Env, cfg: &Cfg) -> Result<Files, String> {
    let scan = family::scan(&env.dir, &cfg.parts, None, cfg.naming(), &[]);
    if !scan.foreign.is_empty() || !scan.other.is_empty() {
        return Err(format!("files outside the family: {:?} {:?}", scan.foreign, scan.other));
    }
    scan.contents(&env.dir)
}

fn sched_cfg(eager: bool) -> SchedCfg {
    SchedCfg {
        ignore: vec!["flw_pool_pop", "flw_pool_push", "set_max_level", "write", "flush", "open", "rename", "cleanup_list", "symlink_remove", "symlink_create"],
        eager_others: eager,
        ..SchedCfg::default()
    }
}

/// Runs `body` either plainly (sync modes) or under the scheduler's canonical schedule.
fn run_mode<O: Send + 'static>(mode: ModeK, eager: bool, body: Arc<dyn Fn() -> O + Send + Sync>) -> Result<O, String> {
    if mode.is_async() {
        let b2 = Arc::clone(&body);
        let wrapped: Arc<dyn Fn(&Arc<Sched>) -> O + Send + Sync> = Arc::new(move |_s| b2());
        let clock = crate::hooks::VClock::new(crate::hooks::base_instant());
        let ex = sched::run_once(&sched_cfg(eager), &[], Some(clock), wrapped);
        if ex.stalled {
            return Err("MACHINERY: scheduled execution stalled".into());
        }
        match (ex.abort, ex.obs) {
            (Some(Abort::Deadlock(d)), _) => Err(format!("deadlock: {d}")),
            (Some(Abort::Diverged(d)), _) => Err(format!("MACHINERY: {d}")),
            (None, Some(o)) => Ok(o),
            (None, None) => Err("no observation".into()),
        }
    } else {
        match run_isolated(Duration::from_secs(30), move || body()) {
            Ran::Done(o) => Ok(o),
            Ran::Panicked(m) => Err(format!("panic: {m}")),
            Ran::Hung => Err("hang".into()),
        }
    }
}

fn records_body(rot: Option<NamingK>, mode: ModeK, word: Vec<HOp>) -> Arc<dyn Fn() -> Result<Files, String> + Send + Sync> {
    Arc::new(move || {
        let cfg = cfg_for(rot, mode);
        let in_sched = crate::hooks::current_ctx().is_some();
        let env = if in_sched { Env::in_current("c15") } else { Env::new("c15") };
        if !in_sched {
            env.enter();
        }
        let mut h = Hist::new(&env, cfg.clone());
        for op in &word {
            h.apply(*op).map_err(|e| format!("{e:?}"))?;
        }
        h.stop();
        drop(h);
        env.leave();
        let errs = env.errlines();
        if !errs.is_empty() {
            return Err(format!("error channel: {errs:?}"));
        }
        read_files(&env, &cfg)
    })
}

#[derive(Debug, Clone, PartialEq)]
struct ChunkObs {
    files: Files,
    results: Vec<Result<usize, String>>,
    errs: Vec<String>,
}

fn chunks_body(rot: Option<NamingK>, mode: ModeK, chunks: Vec<Vec<u8>>) -> Arc<dyn Fn() -> Result<ChunkObs, String> + Send + Sync> {
    Arc::new(move || {
        let cfg = cfg_for(rot, mode);
        let in_sched = crate::hooks::current_ctx().is_some();
        let env = if in_sched { Env::in_current("c15c") } else { Env::new("c15c") };
        if !in_sched {
            env.enter();
        }
        flexi_logger::Logger::with(flexi_logger::LogSpecification::off())
            .do_not_log()
            .error_channel(flexi_logger::ErrorChannel::File(env.err.clone()))
            .build()
            .ok();
        let (mut w, handle) = cfg.flw_builder(&env.dir).try_build_with_handle().map_err(|e| e.to_string())?;
        let mut results = Vec::new();
        for c in &chunks {
            results.push(w.write(c).map_err(|e| e.to_string()));
            env.observe();
        }
        w.flush().ok();
        drop(handle); // shuts the writer down
        drop(w);
        env.observe();
        env.leave();
        let files = read_files(&env, &cfg)?;
        Ok(ChunkObs {
            files,
            results,
            errs: env.errlines(),
        })
    })
}

fn mode_name(m: ModeK, eager: bool) -> String {
    if m.is_async() {
        format!("{m:?}/{}", if eager { "early-writer" } else { "late-writer" })
    } else {
        format!("{m:?}")
    }
}

fn sizes(f: &Files) -> Vec<usize> {
    f.iter().map(|x| x.1.len()).collect()
}

fn check_records(rot: Option<NamingK>, word: &[HOp], out: &mut Out, case: &Value, only: Option<(ModeK, bool)>) {
    let direct = match run_mode(ModeK::Direct, false, records_body(rot, ModeK::Direct, word.to_vec())) {
        Ok(Ok(f)) => f,
        other => {
            out.violation(Violation::new("direct-run-failed", "records", format!("rot={rot:?} word={word:?}: {other:?}"), case.clone()));
            return;
        }
    };
    out.state(&(format!("{rot:?}"), sizes(&direct)));
    if direct.len() >= 2 {
        out.nontrivial(&(format!("{rot:?}"), word));
    }
    out.outcome(format!("files={}", direct.len()));
    for mode in modes() {
        for eager in [false, true] {
            if !mode.is_async() && eager {
                continue;
            }
            if only.is_some_and(|o| o != (mode, eager)) {
                continue;
            }
            out.evaluations += 1;
            out.traces_validated += 1;
            out.transitions += word.len() as u64 + 1;
            let r = run_mode(mode, eager, records_body(rot, mode, word.to_vec()));
            let has_r = word.contains(&HOp::R);
            let mut c = case.clone();
            c["mode"] = json!(format!("{mode:?}"));
            c["eager"] = json!(eager);
            match r {
                Ok(Ok(f)) if f == direct => {}
                Ok(Ok(f)) => {
                    let first_op = if has_r { "R" } else { "W" };
                    out.violation(Violation::new(
                        "modes-differ",
                        format!("records/{}/{first_op}/{}", mode_name(mode, eager), if rot.is_some() { "rotation" } else { "no-rotation" }),
                        format!("rot={rot:?} word={word:?}\n   direct: {:?}\n   {}: {:?}", show(&direct), mode_name(mode, eager), show(&f)),
                        c,
                    ));
                }
                Ok(Err(e)) | Err(e) => {
                    let clause = if e.starts_with("MACHINERY") { "machinery" } else { "mode-run-failed" };
                    out.violation(Violation::new(clause, format!("records/{}", mode_name(mode, eager)), format!("rot={rot:?} word={word:?}: {e}"), c));
                }
            }
        }
    }
}

fn show(f: &Files) -> Vec<(String, String)> {
    f.iter()
        .map(|(n, b)| {
            let s = String::from_utf8_lossy(b);
            (n.clone(), if s.len() > 80 { format!("{}…({} bytes)", &s[..40], b.len()) } else { s.to_string() })
        })
        .collect()
}

fn chunk_name(c: &[u8]) -> String {
    if c.len() > 16 {
        format!("{}x{}", c[0] as char, c.len())
    } else {
        format!("{:?}", String::from_utf8_lossy(c))
    }
}

fn check_chunks(rot: Option<NamingK>, chunks: &[Vec<u8>], out: &mut Out, case: &Value, only: Option<(ModeK, bool)>) {
    let expected: Vec<u8> = chunks.concat();
    let control = chunks.iter().any(|c| c == b"F" || c == b"S");
    let mut all_modes = vec![ModeK::Direct];
    all_modes.extend(modes());
    // the list of files direct mode leaves (names and contents): every chunk is one write
    // operation in every mode, so the partition into files does not depend on the mode either
    let direct_files: Option<Files> = match run_mode(ModeK::Direct, false, chunks_body(rot, ModeK::Direct, chunks.to_vec())) {
        Ok(Ok(o)) => Some(o.files),
        _ => None,
    };
    // what direct mode leaves must be what the size criterion says: a chunk (an empty one, too)
    // that arrives while the current file holds more than N bytes goes to the next file
    if let (Some(_), Some(d)) = (rot, direct_files.as_ref()) {
        let mut model: Vec<Vec<u8>> = Vec::new();
        let mut cur: Vec<u8> = Vec::new();
        for c in chunks {
            if cur.len() as u64 > N {
                model.push(std::mem::take(&mut cur));
            }
            cur.extend(c);
        }
        model.push(cur);
        let got: Vec<&Vec<u8>> = d.iter().map(|f| &f.1).collect();
        if got.len() != model.len() || got.iter().zip(model.iter()).any(|(a, b)| *a != b) {
            let names: Vec<String> = chunks.iter().map(|c| chunk_name(c)).collect();
            let mut c = case.clone();
            c["mode"] = json!(format!("{:?}", ModeK::Direct));
            c["eager"] = json!(false);
            out.violation(Violation::new(
                "chunk-files!=size-model",
                format!("chunks/direct/{}", if chunks.iter().any(Vec::is_empty) { "with-empty-chunk" } else { "no-empty-chunk" }),
                format!("rot={rot:?} chunks={names:?}: direct mode leaves files of {:?} bytes, the size criterion (N={N}) says {:?}", got.iter().map(|g| g.len()).collect::<Vec<_>>(), model.iter().map(Vec::len).collect::<Vec<_>>()),
                c,
            ));
        }
    }
    for mode in all_modes {
        for eager in [false, true] {
            if !mode.is_async() && eager {
                continue;
            }
            if only.is_some_and(|o| o != (mode, eager)) {
                continue;
            }
            out.evaluations += 1;
            out.traces_validated += 1;
            out.transitions += chunks.len() as u64 + 1;
            let mut c = case.clone();
            c["mode"] = json!(format!("{mode:?}"));
            c["eager"] = json!(eager);
            let names: Vec<String> = chunks.iter().map(|c| chunk_name(c)).collect();
            let first_control = chunks.iter().find(|c| *c == b"F" || *c == b"S").map_or("-".to_string(), |c| chunk_name(c));
            let cause = format!("chunks/{}/control-chunk:{first_control}/{}", mode_name(mode, eager), if rot.is_some() { "rotation" } else { "no-rotation" });
            match run_mode(mode, eager, chunks_body(rot, mode, chunks.to_vec())) {
                Ok(Ok(o)) => {
                    if mode == ModeK::Direct {
                        out.state(&(format!("c{rot:?}"), sizes(&o.files)));
                        if o.files.len() >= 2 || control {
                            out.nontrivial(&(format!("{rot:?}"), chunks));
                        }
                    }
                    if let Some((i, r)) = o.results.iter().enumerate().find(|(i, r)| **r != Ok(chunks[*i].len())) {
                        out.violation(Violation::new("write-result", cause.clone(), format!("rot={rot:?} chunks={names:?}: write #{i} returned {r:?}, expected Ok({})", chunks[i].len()), c.clone()));
                        continue;
                    }
                    let got: Vec<u8> = o.files.iter().flat_map(|f| f.1.clone()).collect();
                    if got != expected {
                        out.violation(Violation::new(
                            "chunks!=concat",
                            cause,
                            format!("rot={rot:?} chunks={names:?}: files {:?}\n   hold {} bytes, the chunks are {} bytes; error channel {:?}", show(&o.files), got.len(), expected.len(), o.errs),
                            c,
                        ));
                    } else if !o.errs.is_empty() {
                        out.violation(Violation::new("error-channel", cause, format!("rot={rot:?} chunks={names:?}: {:?}", o.errs), c));
                    } else if mode != ModeK::Direct && !(control && mode.is_async()) {
                        if let Some(d) = &direct_files {
                            if *d != o.files {
                                out.violation(Violation::new(
                                    "chunk-files-differ",
                                    cause,
                                    format!("rot={rot:?} chunks={names:?}: the files differ from what direct mode leaves\n   direct: {:?}\n   {}: {:?}", show(d), mode_name(mode, eager), show(&o.files)),
                                    c,
                                ));
                            }
                        }
                    }
                }
                Ok(Err(e)) | Err(e) => {
                    let clause = if e.starts_with("MACHINERY") { "machinery" } else { "mode-run-failed" };
                    out.violation(Violation::new(clause, cause, format!("rot={rot:?} chunks={names:?}: {e}"), c));
                }
            }
        }
    }
}

fn run_unit(tier: &str, unit: usize, out: &mut Out) {
    if unit < n_rec_units() {
        let alpha = rec_alphabet();
        let rot = rotations()[unit / alpha.len()];
        let first = unit % alpha.len();
        let d = rec_depth(tier);
        for_each_word(alpha.len(), d - 1, |rest| {
            let mut w = vec![first];
            w.extend_from_slice(rest);
            let word: Vec<HOp> = w.iter().map(|i| alpha[*i]).collect();
            let case = json!({"kind": "records", "unit": unit, "word": w});
            check_records(rot, &word, out, &case, None);
            if out.samples.len() < 2 && w.len() == d && word.contains(&HOp::R) {
                out.sample(json!({"rotation": format!("{rot:?}"), "record_word": format!("{word:?}"), "compared_modes": modes().iter().map(|m| format!("{m:?}")).collect::<Vec<_>>()}));
            }
        });
        return;
    }
    let u = unit - n_rec_units();
    if u < n_chunk_units() {
        let alpha = chunk_alphabet();
        let rot = if u / alpha.len() == 0 { None } else { Some(NamingK::Numbers) };
        let first = u % alpha.len();
        let d = chunk_depth(tier);
        for_each_word(alpha.len(), d - 1, |rest| {
            let mut w = vec![first];
            w.extend_from_slice(rest);
            let chunks: Vec<Vec<u8>> = w.iter().map(|i| alpha[*i].clone()).collect();
            let case = json!({"kind": "chunks", "unit": unit, "word": w});
            check_chunks(rot, &chunks, out, &case, None);
            if out.samples.len() < 4 && w.len() == d && chunks.iter().any(|c| c == b"S") {
                out.sample(json!({"rotation": format!("{rot:?}"), "chunk_sequence": chunks.iter().map(|c| chunk_name(c)).collect::<Vec<_>>()}));
            }
        });
        return;
    }
    // single bytes
    let b = u - n_chunk_units();
    let rot = if b / 16 == 0 { None } else { Some(NamingK::Numbers) };
    for v in (b % 16) * 16..(b % 16) * 16 + 16 {
        let byte = vec![v as u8];
        for chunks in [vec![byte.clone()], vec![b"x".to_vec(), byte.clone(), b"x".to_vec()]] {
            let case = json!({"kind": "bytes", "unit": unit, "chunks": chunks});
            check_chunks(rot, &chunks, out, &case, None);
        }
    }
}

fn parse_mode(s: &str) -> ModeK {
    let mut all = vec![ModeK::Direct];
    all.extend(modes());
    all.into_iter().find(|m| format!("{m:?}") == s).unwrap_or(ModeK::Direct)
}

fn replay(case: &Value) -> Vec<Violation> {
    let mut out = Out::default();
    let unit = case["unit"].as_u64().unwrap_or(0) as usize;
    let only = Some((parse_mode(case["mode"].as_str().unwrap_or("")), case["eager"].as_bool().unwrap_or(false)));
    let w: Vec<usize> = case["word"].as_array().into_iter().flatten().filter_map(|x| x.as_u64().map(|n| n as usize)).collect();
    match case["kind"].as_str() {
        Some("records") => {
            let alpha = rec_alphabet();
            let rot = rotations()[(unit / alpha.len()).min(2)];
            let word: Vec<HOp> = w.iter().filter_map(|i| alpha.get(*i).copied()).collect();
            println!("replay C15 records: rot={rot:?} word={word:?} mode={only:?}");
            check_records(rot, &word, &mut out, case, only);
        }
        Some("chunks") => {
            let alpha = chunk_alphabet();
            let u = unit - n_rec_units();
            let rot = if u / alpha.len() == 0 { None } else { Some(NamingK::Numbers) };
            let chunks: Vec<Vec<u8>> = w.iter().filter_map(|i| alpha.get(*i).cloned()).collect();
            println!("replay C15 chunks: rot={rot:?} chunks={:?} mode={only:?}", chunks.iter().map(|c| chunk_name(c)).collect::<Vec<_>>());
            check_chunks(rot, &chunks, &mut out, case, only);
        }
        _ => {
            let u = unit - n_rec_units() - n_chunk_units();
            let rot = if u / 16 == 0 { None } else { Some(NamingK::Numbers) };
            let chunks: Vec<Vec<u8>> = case["chunks"]
                .as_array()
                .into_iter()
                .flatten()
                .map(|c| c.as_array().into_iter().flatten().filter_map(|b| b.as_u64().map(|n| n as u8)).collect())
                .collect();
            check_chunks(rot, &chunks, &mut out, case, only);
        }
    }
    out.violations
}
