//! C06 — restarting a logger never destroys or reorders earlier runs' records.
//!
//! All sequences of runs (each: append on/off x clock step +0/+1 s x run shape) up to a depth
//! bound are executed on one directory by the real logger under a virtual clock; after every run
//! the directory is compared with the directory before the run and with the stream of all
//! records accepted so far.
use super::{all_workers, default_cap, Prop};
use crate::env::Env;
use crate::family;
use crate::fl::{suffix_of_lines, HOp, Hist, StepErr};
use crate::lg::{Cfg, CleanK, CritK, NameParts, NamingK, NG};
use crate::report::{Meta, Out, Violation};
use crate::{for_each_word, run_isolated, Ran};
use serde_json::{json, Value};
use std::collections::BTreeMap;
use std::time::Duration;

pub fn prop() -> Prop {
    Prop {
        id: "C06",
        meta,
        units,
        run_unit,
        replay,
        bounds,
        wall_cap_s: default_cap,
        max_workers: all_workers,
    }
}

fn meta() -> Meta {
    Meta {
        id: "C06",
        level: "model_checking",
        rule: "every sequence of runs up to the depth bound, each run = (append on/off) x (clock +0 s | +1 s before the start) x shape in {no write, W, WWW (criterion rotates once), W R W}, for every configuration (naming x cleanup incl. compression, two file-name shapes, non-rotating file); states = distinct canonical directories (names with instants relative to the clock, sizes) reached, transitions = runs executed; non-trivial = sequence with >= 2 runs that wrote records; plus configurations starting from a directory that already holds app_r99998.log (numbering passes five digits); plus configurations starting from app_r00001.log, app_r00002.log.gz, app_r00003.log.gz (a plain file older than compressed ones); plus configurations (number and timestamp namings) starting from a directory with only two compressed files; with append the first record of a run follows the previous run's last record in the same file unless that file was over the size limit; configurations with suffix err.log, with a basename containing a dot and no suffix, and with a limit of one file for the direct timestamp namings",
        assumptions: vec![
            "size limit 15 with 10-byte lines; cleanup runs synchronously; direct write mode".into(),
            "names that were removed by the cleanup limit may be used again (the property speaks of names that exist)".into(),
        ],
    }
}

const LINE: usize = 10;
const LIMIT: u64 = 15;

#[derive(Clone, Debug)]
struct Case {
    cfg: Cfg,
    /// the history does not start in an empty directory: a rotated file with this number (and
    /// one record of an earlier era) exists already
    seed_index: Option<u32>,
    /// the history starts in a directory where a plain rotated file is older than compressed ones
    /// (an operator has unpacked an old file, or an earlier cleanup was interrupted):
    /// app_r00001.log, app_r00002.log.gz, app_r00003.log.gz
    seed_mixed: bool,
    /// the history starts in a directory that holds only compressed files (the quantifier names
    /// this state; an operator has packed everything while the program was stopped):
    /// app_r00001.log.gz, app_r00002.log.gz
    seed_only_gz: bool,
}

fn grid() -> Vec<Case> {
    let mut g = Vec::new();
    for naming in NG {
        for clean in [CleanK::Never, CleanK::Log(2), CleanK::Gz(2), CleanK::LogGz(1, 1)] {
            g.push(Case {
                cfg: Cfg::rot(CritK::Size(LIMIT), naming, clean),
                seed_index: None,
                seed_mixed: false,
                seed_only_gz: false,
            });
        }
    }
    // file names that consist of the infix only
    for naming in [NamingK::Numbers, NamingK::NumbersDirect, NamingK::Timestamps] {
        for clean in [CleanK::Never, CleanK::Gz(2)] {
            let mut cfg = Cfg::rot(CritK::Size(LIMIT), naming, clean);
            cfg.parts = NameParts {
                basename: None,
                discriminant: None,
                suffix: Some("log".into()),
                use_timestamp: false,
            };
            g.push(Case { cfg, seed_index: None, seed_mixed: false, seed_only_gz: false });
        }
    }
    // discriminant only, no suffix
    for naming in [NamingK::Numbers, NamingK::TimestampsDirect] {
        let mut cfg = Cfg::rot(CritK::Size(LIMIT), naming, CleanK::Log(2));
        cfg.parts = NameParts {
            basename: None,
            discriminant: Some("svc".into()),
            suffix: None,
            use_timestamp: false,
        };
        g.push(Case { cfg, seed_index: None, seed_mixed: false, seed_only_gz: false });
    }
    // a suffix that sorts behind "restart" (whole file names are then ordered differently from
    // their infixes)
    for naming in [NamingK::TimestampsDirect, NamingK::Timestamps] {
        for clean in [CleanK::Never, CleanK::Log(2)] {
            let mut cfg = Cfg::rot(CritK::Size(LIMIT), naming, clean);
            cfg.parts.suffix = Some("txt".into());
            g.push(Case { cfg, seed_index: None, seed_mixed: false, seed_only_gz: false });
        }
    }
    // a limit of one file with direct timestamp naming (a restart sibling can be the only file)
    for naming in [NamingK::TimestampsDirect, NamingK::CustomDirect] {
        g.push(Case {
            cfg: Cfg::rot(CritK::Size(LIMIT), naming, CleanK::Log(1)),
            seed_index: None,
            seed_mixed: false,
                seed_only_gz: false,
        });
    }
    // a suffix of two parts whose first part contains the letter r
    for naming in [NamingK::Numbers, NamingK::NumbersDirect] {
        let mut cfg = Cfg::rot(CritK::Size(LIMIT), naming, CleanK::Never);
        cfg.parts.suffix = Some("err.log".into());
        g.push(Case { cfg, seed_index: None, seed_mixed: false, seed_only_gz: false });
    }
    // a basename with a dot and no suffix: the infix is not the end of the "stem"
    for naming in [NamingK::Numbers, NamingK::NumbersDirect, NamingK::Timestamps] {
        let mut cfg = Cfg::rot(CritK::Size(LIMIT), naming, CleanK::Never);
        cfg.parts = NameParts {
            basename: Some("my.app".into()),
            discriminant: None,
            suffix: None,
            use_timestamp: false,
        };
        g.push(Case { cfg, seed_index: None, seed_mixed: false, seed_only_gz: false });
    }
    g.push(Case {
        cfg: Cfg::norot(),
        seed_index: None,
        seed_mixed: false,
                seed_only_gz: false,
    });
    // non-initial state: the numbering is about to grow beyond five digits
    for naming in [NamingK::Numbers, NamingK::NumbersDirect] {
        for clean in [CleanK::Never, CleanK::Gz(3)] {
            g.push(Case {
                cfg: Cfg::rot(CritK::Size(LIMIT), naming, clean),
                seed_index: Some(99_998),
                seed_mixed: false,
                seed_only_gz: false,
            });
        }
    }
    for naming in [NamingK::Numbers, NamingK::NumbersDirect] {
        for clean in [CleanK::Gz(6), CleanK::LogGz(2, 4), CleanK::LogGz(1, 1), CleanK::Gz(2)] {
            g.push(Case {
                cfg: Cfg::rot(CritK::Size(LIMIT), naming, clean),
                seed_index: None,
                seed_mixed: true,
                seed_only_gz: false,
            });
        }
    }
    for naming in [NamingK::Numbers, NamingK::NumbersDirect, NamingK::Timestamps, NamingK::TimestampsDirect] {
        for clean in [CleanK::Never, CleanK::Gz(6), CleanK::LogGz(1, 4)] {
            g.push(Case {
                cfg: Cfg::rot(CritK::Size(LIMIT), naming, clean),
                seed_index: None,
                seed_mixed: false,
                seed_only_gz: true,
            });
        }
    }
    g
}

// a run = (append, step, shape): 2 x 2 x 4 = 16 letters
fn letters() -> Vec<(bool, i64, usize)> {
    let mut v = Vec::new();
    for shape in 0..4 {
        for step in [0, 1] {
            for append in [false, true] {
                v.push((append, step, shape));
            }
        }
    }
    v
}
fn shape_ops(s: usize) -> Vec<HOp> {
    match s {
        0 => vec![],
        1 => vec![HOp::W(LINE)],
        2 => vec![HOp::W(LINE), HOp::W(LINE), HOp::W(LINE)],
        _ => vec![HOp::W(LINE), HOp::R, HOp::W(LINE)],
    }
}

fn depth(tier: &str) -> usize {
    if tier == "quick" {
        3
    } else {
        4
    }
}
// unit = (case, first letter)
fn units(_tier: &str) -> usize {
    grid().len() * letters().len()
}
fn bounds(tier: &str) -> Value {
    json!({"configurations": grid().len(), "runs_per_history": depth(tier), "transitions_per_state": letters().len(),
           "histories_per_configuration": crate::word_count(letters().len(), depth(tier))})
}

type Snap = BTreeMap<String, Vec<u8>>; // logical name -> content

fn snapshot(env: &Env, cfg: &Cfg) -> Result<(Snap, Vec<u8>, Vec<String>), String> {
    let scan = family::scan(&env.dir, &cfg.parts, None, cfg.naming(), &[]);
    if !scan.foreign.is_empty() || !scan.other.is_empty() {
        return Err(format!("files outside the family: {:?} {:?}", scan.foreign, scan.other));
    }
    let mut snap = Snap::new();
    let mut stream = Vec::new();
    for (name, content) in scan.contents(&env.dir)? {
        let logical = name.strip_suffix(".gz").unwrap_or(&name).to_string();
        if snap.contains_key(&logical) {
            return Err(format!("{logical} exists both plain and compressed"));
        }
        stream.extend(&content);
        snap.insert(logical, content);
    }
    Ok((snap, stream, scan.names()))
}

struct Fail {
    clause: &'static str,
    run: usize,
    detail: String,
    /// shape of the directory before the failing run
    shape: &'static str,
}

fn dir_shape(names: &[String]) -> &'static str {
    // names are in age order; the static current file (if any) is last
    let newest_named = names.iter().rev().find(|n| !n.contains("rCUR"));
    match newest_named {
        Some(n) if n.contains(".restart-") => "restart-sibling-newest",
        Some(_) if names.iter().filter(|n| !n.contains("rCUR")).all(|n| n.ends_with(".gz")) => "gz-only",
        Some(_) => "plain",
        None => "empty",
    }
}

/// canonical directory for state counting: names with timestamps made relative to the clock
fn canon(env: &Env, names: &[String]) -> Vec<(String, u64)> {
    let now = env.clock.peek();
    names
        .iter()
        .map(|n| {
            let mut c = n.clone();
            for back in 0..8 {
                let t = now - chrono::Duration::seconds(back);
                let s = t.format("%Y-%m-%d_%H-%M-%S").to_string();
                c = c.replace(&s, &format!("<t-{back}>"));
            }
            let len = std::fs::metadata(env.dir.join(n)).map_or(0, |m| m.len());
            (c, len)
        })
        .collect()
}

fn run_history(c: &Case, word: &[(bool, i64, usize)]) -> Result<Vec<Vec<(String, u64)>>, Fail> {
    let env = Env::new("c06");
    env.enter();
    let mut h = Hist::new(&env, c.cfg.clone());
    let mut prev: Snap = Snap::new();
    let mut prev_names: Vec<String> = Vec::new();
    if c.seed_mixed || c.seed_only_gz {
        use std::io::Write;
        // (with direct numbering the newest file is the current one, which is never compressed)
        let mut seed = vec![(1u32, false), (2, true), (3, true)];
        if c.cfg.naming() == Some(NamingK::NumbersDirect) {
            seed.push((4, false));
        }
        if c.seed_only_gz {
            seed = vec![(1u32, true), (2, true)];
        }
        for (i, gz) in seed {
            let line = format!("seed-{i}\n").into_bytes();
            // (timestamp namings: the name carries the virtual instant of the seeding)
            let logical = match c.cfg.naming() {
                Some(NamingK::Timestamps | NamingK::TimestampsDirect) => format!("app_r{}.log", env.clock.peek().format("%Y-%m-%d_%H-%M-%S")),
                _ => format!("app_r{i:05}.log"),
            };
            let name = format!("{logical}{}", if gz { ".gz" } else { "" });
            if gz {
                let f = std::fs::File::create(env.dir.join(&name)).expect("create seed gz");
                let mut e = flate2::write::GzEncoder::new(f, flate2::Compression::fast());
                e.write_all(&line).ok();
                e.finish().ok();
            } else {
                std::fs::write(env.dir.join(&name), &line).ok();
            }
            env.observe();
            env.clock.advance_secs(1);
            h.accepted.push(line.clone());
            prev.insert(logical, line);
            prev_names.push(name);
        }
    }
    if let Some(idx) = c.seed_index {
        let name = format!("app_r{idx:05}.log");
        let line = b"seed-line\n".to_vec();
        std::fs::write(env.dir.join(&name), &line).ok();
        env.observe();
        env.clock.advance_secs(1);
        h.accepted.push(line.clone());
        prev.insert(name.clone(), line);
        prev_names.push(name);
    }
    // (seeded lines are in rotated files: no run continues them)
    let seeded = h.accepted.len();
    let mut states = Vec::new();
    // non-rotating file: the lines the file must hold
    let mut norot_from: usize = 0;
    for (ri, (append, step, shape)) in word.iter().enumerate() {
        if *step > 0 {
            h.apply(HOp::T(*step)).ok();
        }
        let before_len = h.accepted.len();
        let r = (|| -> Result<(), StepErr> {
            h.apply(HOp::Restart(*append))?;
            for op in shape_ops(*shape) {
                h.apply(op)?;
            }
            Ok(())
        })();
        h.stop();
        if let Err(e) = r {
            return Err(Fail {
                clause: "restart-error",
                run: ri,
                detail: format!("{e:?}"),
                shape: dir_shape(&prev_names),
            });
        }
        let errs = env.errlines();
        if !errs.is_empty() {
            return Err(Fail {
                clause: "error-channel",
                run: ri,
                detail: format!("{errs:?}"),
                shape: dir_shape(&prev_names),
            });
        }
        let wrote = h.accepted.len() > before_len;
        if c.cfg.rotation.is_none() && !*append && wrote {
            norot_from = before_len; // documented truncation
        }
        let (snap, stream, names) = snapshot(&env, &c.cfg).map_err(|e| Fail {
            clause: "unreadable",
            run: ri,
            detail: e,
            shape: dir_shape(&prev_names),
        })?;
        // (1) files that existed before and still exist keep their content (the file appended to
        // may grow)
        for (name, old) in &prev {
            // the static name of the current file (rCURRENT / custom) is re-used by design: its
            // old content moves to a rotated name, which the stream check below verifies
            let static_current = c.cfg.naming().and_then(NamingK::current_infix).is_some_and(|ci| {
                family::classify(&c.cfg.parts, None, c.cfg.naming(), name).is_some_and(|m| m.role == family::Role::Current && name.contains(ci))
            });
            if static_current {
                continue;
            }
            if let Some(new) = snap.get(name) {
                let truncation_ok = c.cfg.rotation.is_none() && !*append && wrote;
                if !new.starts_with(old) && !truncation_ok {
                    return Err(Fail {
                        clause: "content-changed",
                        shape: dir_shape(&prev_names),
                        run: ri,
                        detail: format!(
                            "{name} held {:?} before run {ri} and holds {:?} afterwards",
                            String::from_utf8_lossy(old),
                            String::from_utf8_lossy(new)
                        ),
                    });
                }
            }
        }
        // (2) the stream read in age order
        let expected_lines: &[Vec<u8>] = if c.cfg.rotation.is_none() {
            &h.accepted[norot_from..]
        } else {
            &h.accepted[..]
        };
        let may_drop_prefix = matches!(c.cfg.rotation, Some((_, _, k)) if k != CleanK::Never);
        match suffix_of_lines(expected_lines, &stream) {
            Some(0) => {}
            Some(_) if may_drop_prefix => {}
            other => {
                let exp = expected_lines.concat();
                let lost = other.is_some();
                return Err(Fail {
                    clause: if lost { "lost-not-by-limit" } else { "stream-broken" },
                    shape: dir_shape(&prev_names),
                    run: ri,
                    detail: format!(
                        "after run {ri}: files {names:?}\n   read in age order: {:?}\n   accepted so far  : {:?}",
                        String::from_utf8_lossy(&stream),
                        String::from_utf8_lossy(&exp)
                    ),
                });
            }
        }
        // (3) "with append, new records follow the earlier ones in the same current file": if the
        // file that holds the previous run's last record was not over the size limit, this run's
        // first record comes right behind it (skipped when the cleanup has removed that file)
        if c.cfg.rotation.is_some() && *append && wrote && before_len > seeded {
            let last = &h.accepted[before_len - 1];
            let first = &h.accepted[before_len];
            let due = prev.values().find(|content| content.ends_with(last)).map(|content| content.len() as u64 > LIMIT);
            if due == Some(false) {
                let mut pair = last.clone();
                pair.extend(first);
                let holds_last = snap.values().any(|content| content.windows(last.len()).any(|w| w == last.as_slice()));
                let continued = snap.values().any(|content| content.windows(pair.len()).any(|w| w == pair.as_slice()));
                if holds_last && !continued {
                    return Err(Fail {
                        clause: "append-did-not-continue",
                        shape: dir_shape(&prev_names),
                        run: ri,
                        detail: format!(
                            "run {ri} starts with append, the file holding the previous run's last record {:?} was not over the limit, but this run's first record {:?} does not follow it: files {names:?}",
                            String::from_utf8_lossy(last),
                            String::from_utf8_lossy(first)
                        ),
                    });
                }
            }
        }
        states.push(canon(&env, &names));
        prev = snap;
        prev_names = names;
    }
    drop(h);
    env.leave();
    Ok(states)
}

fn cause(c: &Case, word: &[(bool, i64, usize)], run: usize) -> String {
    let (append, step, _) = word.get(run).copied().unwrap_or((false, 0, 0));
    let clean = match c.cfg.rotation {
        None => "norot",
        Some((_, _, CleanK::Never)) => "never",
        Some((_, _, CleanK::Log(_))) => "keeplog",
        Some((_, _, CleanK::Gz(_))) => "gz",
        Some((_, _, CleanK::LogGz(..))) => "log+gz",
    };
    let shape = if c.seed_only_gz {
        "/only-compressed-files"
    } else if c.seed_mixed {
        "/plain-older-than-compressed"
    } else if c.seed_index.is_some() {
        "/numbers-beyond-five-digits"
    } else if c.cfg.parts.basename.is_none() && c.cfg.parts.discriminant.is_none() {
        "/infix-only-name"
    } else if c.cfg.parts.suffix.is_none() {
        "/no-suffix"
    } else {
        ""
    };
    format!(
        "{}/{clean}/{}/{}{shape}",
        c.cfg.naming().map_or("none", NamingK::short),
        if append { "append" } else { "no-append" },
        if step == 0 { "same-second" } else { "next-second" }
    )
}

fn judge(c: &Case, word: &[(bool, i64, usize)], case: Value) -> (Option<Violation>, Option<Vec<Vec<(String, u64)>>>) {
    let cc = c.clone();
    let ww = word.to_vec();
    match run_isolated(Duration::from_secs(30), move || run_history(&cc, &ww)) {
        Ran::Done(Ok(s)) => (None, Some(s)),
        Ran::Done(Err(f)) => (
            Some(Violation::new(f.clause, format!("{}/{}", cause(c, word, f.run), f.shape), format!("cfg={:?}\n  runs(append,step,shape)={word:?}\n  {}", c.cfg, f.detail), case)),
            None,
        ),
        Ran::Panicked(m) => (Some(Violation::new("panic", cause(c, word, word.len().saturating_sub(1)), format!("cfg={:?} runs={word:?}: {m}", c.cfg), case)), None),
        Ran::Hung => (Some(Violation::new("hang", cause(c, word, 0), format!("cfg={:?} runs={word:?}", c.cfg), case)), None),
    }
}

fn run_unit(tier: &str, unit: usize, out: &mut Out) {
    let g = grid();
    let ls = letters();
    let c = &g[unit / ls.len()];
    let first = unit % ls.len();
    let d = depth(tier);
    for_each_word(ls.len(), d - 1, |rest| {
        let mut w = vec![first];
        w.extend_from_slice(rest);
        let word: Vec<(bool, i64, usize)> = w.iter().map(|i| ls[*i]).collect();
        let case = json!({"unit": unit, "word": w, "cfg": format!("{:?}", c.cfg)});
        let (v, states) = judge(c, &word, case.clone());
        out.evaluations += 1;
        out.traces_validated += 1;
        out.transitions += word.len() as u64;
        if let Some(states) = states {
            for s in &states {
                out.state(&(unit / ls.len(), s));
            }
            out.outcome(format!("files={}", states.last().map_or(0, Vec::len)));
            if word.iter().filter(|r| r.2 > 0).count() >= 2 {
                out.nontrivial(&(unit, &w));
            }
            if out.samples.len() < 3 && w.len() == d && states.last().map_or(0, Vec::len) >= 4 {
                out.sample(json!({"cfg": format!("{:?}", c.cfg.rotation), "runs(append,clock_step,shape)": format!("{word:?}"), "final_directory": format!("{:?}", states.last())}));
            }
        }
        if let Some(v) = v {
            let (v2, _) = judge(c, &word, case);
            match v2 {
                Some(v2) if v2.key() == v.key() => out.violation(v),
                _ => out.violation(Violation::new("nondeterministic", "replay-diverged", v.detail.clone(), v.case.clone())),
            }
        }
    });
    out.max("max_depth_completed", d as u64);
}

fn replay(case: &Value) -> Vec<Violation> {
    let g = grid();
    let ls = letters();
    let unit = case["unit"].as_u64().unwrap_or(0) as usize;
    let Some(c) = g.get(unit / ls.len()) else { return vec![] };
    let w: Vec<usize> = case["word"].as_array().into_iter().flatten().filter_map(|x| x.as_u64().map(|n| n as usize)).collect();
    let word: Vec<(bool, i64, usize)> = w.iter().filter_map(|i| ls.get(*i).copied()).collect();
    println!("replay C06: cfg={:?}\n  runs(append,step,shape)={word:?}", c.cfg);
    judge(c, &word, case.clone()).0.into_iter().collect()
}
