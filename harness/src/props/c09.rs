//! C09 — age criterion: rotate exactly at the first write in a later clock period.
//!
//! Under the virtual clock (every `Local::now()` of the file writer and the creation-time
//! lookup are answered by the harness) all sequences of (clock step, write) up to a depth
//! bound are executed for Age x naming x start state x criterion x time zone; the partition of
//! the lines into files and the timestamp infixes are compared with a reference that works on
//! local calendar fields.
use super::{all_workers, default_cap, Prop};
use crate::env::Env;
use crate::family;
use crate::fl::{HOp, Hist};
use crate::hooks::ts;
use crate::lg::{self, AgeK, Cfg, CleanK, CritK, NamingK, NG};

/// the six schemes plus a custom format whose names do not sort chronologically
const NG9: [NamingK; 7] = [NamingK::Numbers, NamingK::NumbersDirect, NamingK::Timestamps, NamingK::TimestampsDirect, NamingK::CustomCur, NamingK::CustomDirect, NamingK::DayFirstDirect];
use crate::report::{Meta, Out, Violation};
use crate::{for_each_word, run_isolated, Ran};
use chrono::{DateTime, Datelike, Local, Timelike};
use serde_json::{json, Value};
use std::time::Duration;

pub fn prop() -> Prop {
    Prop {
        id: "C09",
        meta,
        units,
        run_unit,
        replay,
        bounds,
        wall_cap_s: default_cap,
        max_workers: all_workers,
    }
}

fn meta() -> Meta {
    Meta {
        id: "C09",
        level: "model_checking",
        rule: "every sequence up to the depth bound of (clock step, write) with steps {0, +1 s, +2 s, +1 min, +1 h, +1 day, +31 days (same day of next month), +365 days (same date next year), +40 days}, from 7 base instants (mid-period, 2 s before a minute / hour / month+day / year boundary, and 0.4 s before a minute / day boundary), for Age{Second,Minute,Hour,Day} x naming x start {fresh, append onto a current file of the same period, of an earlier period, onto an empty one of an earlier period} x {Age, AgeOrSize huge, AgeOrSize small} x {TZ UTC, Asia/Kolkata, Asia/Kolkata+use_utc, America/St_Johns}; states = distinct (configuration, partition shape) reached; non-trivial = at least one age rotation predicted; two more base instants lie 0.4 s before a minute / day boundary; the seeded current file is over the limit for AgeOrSize(small); a fourth start state appends onto an empty current file of an earlier period; a seventh naming whose names do not sort chronologically (day first), and a start state with an older file besides the current one; for the fresh start and the same-period start with criterion Age every word is also run with the clock steps taking place while the record is rendered (after the format function took the record's timestamp): the criterion is the clock at the write",
        assumptions: vec![
            "the clock seam (guarded hook) replaces Local::now() and the creation-time lookup; a real-time Age::Second run without the hook cross-checks the file-metadata path (thorough tier)".into(),
            "no write instants inside a DST fall-back hour".into(),
        ],
    }
}

const TZS: [(&str, bool); 4] = [("UTC", false), ("Asia/Kolkata", false), ("Asia/Kolkata", true), ("America/St_Johns", false)];
const AGES: [AgeK; 4] = [AgeK::Second, AgeK::Minute, AgeK::Hour, AgeK::Day];
const STEPS: [i64; 9] = [0, 1, 2, 60, 3600, 86_400, 31 * 86_400, 365 * 86_400, 40 * 86_400];
const SMALL: u64 = 12;

fn bases() -> Vec<DateTime<Local>> {
    vec![
        ts(2024, 5, 15, 12, 30, 10),
        ts(2024, 5, 15, 12, 30, 58),
        ts(2024, 5, 15, 12, 59, 58),
        ts(2024, 5, 31, 23, 59, 58),
        ts(2024, 12, 31, 23, 59, 58),
        // in the last half second of a period (sub-second instants matter for "which period")
        ts(2024, 5, 15, 12, 30, 59) + chrono::Duration::milliseconds(600),
        ts(2024, 5, 31, 23, 59, 59) + chrono::Duration::milliseconds(600),
    ]
}

fn depth(tier: &str) -> usize {
    if tier == "quick" {
        2
    } else {
        3
    }
}
fn units(_tier: &str) -> usize {
    TZS.len() * AGES.len() * NG9.len() + 1
}
fn bounds(tier: &str) -> Value {
    json!({"time_zones": TZS.len(), "ages": 4, "namings": NG9.len(), "start_states": 5, "criteria": 3, "base_instants": bases().len(), "steps": STEPS, "depth": depth(tier)})
}

#[derive(Clone, Debug)]
struct Case {
    tz: &'static str,
    use_utc: bool,
    age: AgeK,
    naming: NamingK,
    /// 0 fresh, 1 append onto current file of the same period, 2 of an earlier period, 3 an empty
    /// one of an earlier period, 4 like 1 with an older file of the family besides
    start: u8,
    /// 0 Age, 1 AgeOrSize(huge), 2 AgeOrSize(small)
    crit: u8,
    base: usize,
    /// the clock steps happen while the record is rendered (after its timestamp was taken) instead
    /// of before the log call: the criterion looks at the clock when the record is written
    slow: bool,
}

fn period(a: AgeK, t: &DateTime<Local>) -> (i32, u32, u32, u32, u32, u32) {
    match a {
        AgeK::Day => (t.year(), t.month(), t.day(), 0, 0, 0),
        AgeK::Hour => (t.year(), t.month(), t.day(), t.hour(), 0, 0),
        AgeK::Minute => (t.year(), t.month(), t.day(), t.hour(), t.minute(), 0),
        AgeK::Second => (t.year(), t.month(), t.day(), t.hour(), t.minute(), t.second()),
    }
}

fn cfg_of(c: &Case) -> Cfg {
    let crit = match c.crit {
        0 => CritK::Age(c.age),
        1 => CritK::AgeOrSize(c.age, 1_000_000),
        _ => CritK::AgeOrSize(c.age, SMALL),
    };
    let mut cfg = Cfg::rot(crit, c.naming, CleanK::Never);
    cfg.append = c.start != 0;
    cfg.use_utc = c.use_utc;
    cfg
}

fn infix_of(c: &Case, t: &DateTime<Local>) -> Option<String> {
    let fmt = c.naming.ts_format()?;
    Some(if c.use_utc { t.naive_utc().format(fmt).to_string() } else { t.format(fmt).to_string() })
}

struct Pred {
    /// (start instant of the content, lines)
    files: Vec<(DateTime<Local>, Vec<String>)>,
    age_rotations: usize,
}

const LINE: usize = 8;

fn run_word(c: &Case, steps: &[i64]) -> Result<(Vec<usize>, usize), (String, String)> {
    let base = bases()[c.base];
    let env = Env::at("c09", base);
    let cfg = cfg_of(c);
    let ending = cfg.ending();
    let size_limit = if c.crit == 2 { Some(SMALL) } else { None };
    let mut pred = Pred {
        files: Vec::new(),
        age_rotations: 0,
    };
    let mut cur_size: u64 = 0;
    // start state 4 (direct timestamp namings; otherwise like 1): besides the current file of the
    // same period there is an older file of the family, 15 days back - with a format that puts the
    // day first its name sorts *behind* the current file's
    if c.start == 4 && c.naming.direct() && c.naming.ts_format().is_some() {
        let created = base - chrono::Duration::days(15) - chrono::Duration::seconds(1);
        let p = env.dir.join(format!("app_{}.log", infix_of(c, &created).unwrap()));
        std::fs::write(&p, format!("older{ending}")).map_err(|e| ("machinery".to_string(), e.to_string()))?;
        env.clock.set_created(&p, created);
        pred.files.push((created, vec!["older".into()]));
    }
    // seeded current file
    if c.start != 0 {
        let created = if c.start == 1 || c.start == 4 { base - chrono::Duration::seconds(1) } else { base - chrono::Duration::days(2) - chrono::Duration::seconds(1) };
        let name = match c.naming {
            NamingK::Numbers | NamingK::Timestamps => "app_rCURRENT.log".to_string(),
            NamingK::CustomCur => format!("app_{}.log", lg::CUSTOM_CUR),
            NamingK::NumbersDirect => "app_r00000.log".to_string(),
            NamingK::TimestampsDirect | NamingK::CustomDirect | NamingK::CoarseDirect | NamingK::DayFirstDirect => format!("app_{}.log", infix_of(c, &created).unwrap()),
        };
        // (with the small size limit the seeded file is already over the limit: the first write
        // meets the size part, and for an earlier period also the age part of AgeOrSize)
        let seeded_text = if c.crit == 2 { "seeded-and-longer" } else { "seeded" };
        // start state 3: an empty current file of an earlier period
        let content = if c.start == 3 { String::new() } else { format!("{seeded_text}{ending}") };
        let p = env.dir.join(name);
        std::fs::write(&p, &content).map_err(|e| ("machinery".to_string(), e.to_string()))?;
        env.clock.set_created(&p, created);
        pred.files.push((created, if c.start == 3 { vec![] } else { vec![seeded_text.into()] }));
        cur_size = content.len() as u64;
    }
    env.enter();
    let mut h = Hist::new(&env, cfg.clone());
    let mut t = base;
    for (i, d) in steps.iter().enumerate() {
        if !c.slow {
            h.apply(HOp::T(*d)).ok();
        }
        t = t + chrono::Duration::seconds(*d);
        // reference
        let rotate = match pred.files.last() {
            None => true,
            Some((start, _)) => {
                let age = period(c.age, start) != period(c.age, &t);
                let size = size_limit.is_some_and(|n| cur_size > n);
                if age {
                    pred.age_rotations += 1;
                }
                age || size
            }
        };
        if rotate {
            pred.files.push((t, Vec::new()));
            cur_size = 0;
        }
        h.apply(if c.slow { HOp::WSlow(LINE, *d) } else { HOp::W(LINE) }).map_err(|e| ("op-error".to_string(), format!("write {i}: {e:?}")))?;
        let line = h.accepted.last().unwrap();
        pred.files.last_mut().unwrap().1.push(String::from_utf8_lossy(&line[..line.len() - ending.len()]).to_string());
        cur_size += line.len() as u64;
    }
    h.stop();
    drop(h);
    env.leave();
    let errs = env.errlines();
    if !errs.is_empty() {
        return Err(("error-channel".into(), format!("{errs:?}")));
    }
    // observed partition
    let scan = family::scan(&env.dir, &cfg.parts, None, cfg.naming(), &[]);
    if !scan.foreign.is_empty() || !scan.other.is_empty() {
        return Err(("unclassifiable-file".into(), format!("{:?} {:?}", scan.foreign, scan.other)));
    }
    let mut observed: Vec<(String, Vec<String>)> = Vec::new();
    for (name, content) in scan.contents(&env.dir).map_err(|e| ("unreadable".to_string(), e))? {
        observed.push((name, family::split_lines(&content, ending).0));
    }
    let obs_lines: Vec<&Vec<String>> = observed.iter().map(|o| &o.1).collect();
    let pred_lines: Vec<&Vec<String>> = pred.files.iter().map(|f| &f.1).collect();
    if obs_lines != pred_lines {
        // classify
        let two_periods = observed.iter().any(|(_, ls)| {
            // a file holding lines that the reference puts into different files although no size rotation is involved
            let idx: Vec<usize> = ls.iter().filter_map(|l| pred.files.iter().position(|f| f.1.contains(l))).collect();
            idx.windows(2).any(|w| w[0] != w[1])
        });
        return Err((
            if two_periods { "two-periods-in-file".into() } else { "partition!=predicted".into() },
            format!(
                "observed {:?}\n   predicted {:?} (file start instants {:?})",
                observed,
                pred_lines,
                pred.files.iter().map(|f| f.0.format("%Y-%m-%d %H:%M:%S").to_string()).collect::<Vec<_>>()
            ),
        ));
    }
    // timestamp infixes carry the start instant of the content
    if c.naming.ts_format().is_some() {
        for ((name, _), (start, _)) in observed.iter().zip(pred.files.iter()) {
            if c.naming.current_infix().is_some_and(|ci| name.contains(ci)) {
                continue;
            }
            let want = infix_of(c, start).unwrap();
            let ok = name == &format!("app_{want}.log") || name.starts_with(&format!("app_{want}.restart-"));
            if !ok {
                return Err((
                    "infix!=start-instant".into(),
                    format!("file {name} holds content started at {} (expected infix {want}); all files {:?}", start.format("%Y-%m-%d %H:%M:%S"), observed.iter().map(|o| &o.0).collect::<Vec<_>>()),
                ));
            }
        }
    }
    Ok((pred.files.iter().map(|f| f.1.len()).collect(), pred.age_rotations))
}

fn boundary_kind(c: &Case, steps: &[i64]) -> &'static str {
    // the coarsest calendar field that changes somewhere in the word
    let mut t = bases()[c.base];
    let mut k = 0;
    for d in steps {
        let n = t + chrono::Duration::seconds(*d);
        let r = if n.year() != t.year() {
            6
        } else if n.month() != t.month() {
            5
        } else if n.day() != t.day() {
            4
        } else if n.hour() != t.hour() {
            3
        } else if n.minute() != t.minute() {
            2
        } else if n.second() != t.second() {
            1
        } else {
            0
        };
        k = k.max(r);
        t = n;
    }
    ["none", "sec", "min", "hour", "day", "month", "year"][k]
}

fn cause(c: &Case, steps: &[i64]) -> String {
    format!(
        "{:?}/{}/{}/{}/{}{}",
        c.age,
        boundary_kind(c, steps),
        c.naming.short(),
        ["fresh", "append-same-period", "append-earlier-period", "append-empty-earlier-period"][c.start as usize % 4],
        if c.tz == "UTC" { "utc-zone" } else { "offset-zone" },
        if c.use_utc { "+use_utc" } else { "" }
    )
}

fn judge(c: &Case, steps: &[i64], case: Value) -> (Option<Violation>, Option<(Vec<usize>, usize)>) {
    let cc = c.clone();
    let ss = steps.to_vec();
    match run_isolated(Duration::from_secs(30), move || run_word(&cc, &ss)) {
        Ran::Done(Ok(x)) => (None, Some(x)),
        Ran::Done(Err((clause, detail))) => (Some(Violation::new(&clause, cause(c, steps), format!("{c:?}\n  base {} steps(s)={steps:?}\n  {detail}", bases()[c.base].format("%Y-%m-%d %H:%M:%S")), case)), None),
        Ran::Panicked(m) => (Some(Violation::new("panic", cause(c, steps), format!("{c:?} steps={steps:?}: {m}"), case)), None),
        Ran::Hung => (Some(Violation::new("hang", cause(c, steps), format!("{c:?} steps={steps:?}"), case)), None),
    }
}

fn set_tz(tz: &str) {
    // one scenario at a time per process; chrono re-reads TZ on every conversion
    std::env::set_var("TZ", tz);
}

fn run_unit(tier: &str, unit: usize, out: &mut Out) {
    let n_main = TZS.len() * AGES.len() * NG9.len();
    if unit == n_main {
        if tier != "quick" {
            realtime_crosscheck(out);
            realtime_created_crosscheck(out);
        }
        return;
    }
    let (tz, use_utc) = TZS[unit / (AGES.len() * NG9.len())];
    let age = AGES[(unit / NG9.len()) % AGES.len()];
    let naming = NG9[unit % NG9.len()];
    set_tz(tz);
    let d = depth(tier);
    for start in 0..5u8 {
        for crit in 0..3u8 {
            for (base, slow) in (0..bases().len()).map(|b| (b, false)).chain((start < 2 && crit == 0).then_some((0, true))) {
                let c = Case {
                    tz,
                    use_utc,
                    age,
                    naming,
                    start,
                    crit,
                    base,
                    slow,
                };
                for_each_word(STEPS.len(), d, |w| {
                    if w.is_empty() {
                        return;
                    }
                    let steps: Vec<i64> = w.iter().map(|i| STEPS[*i]).collect();
                    let case = json!({"unit": unit, "start": start, "crit": crit, "base": base, "slow": slow, "steps": steps});
                    let (v, r) = judge(&c, &steps, case.clone());
                    out.evaluations += 1;
                    out.traces_validated += 1;
                    out.transitions += steps.len() as u64;
                    if let Some((shape, age_rot)) = r {
                        out.state(&(unit, start, crit, &shape));
                        if age_rot > 0 {
                            out.nontrivial(&(unit, start, crit, base, w));
                        }
                        out.outcome(format!("files={} age_rotations={}", shape.len(), age_rot));
                        if out.samples.len() < 3 && age_rot >= 2 && start == 2 {
                            out.sample(json!({"case": format!("{c:?}"), "base": bases()[base].format("%Y-%m-%d %H:%M:%S").to_string(), "steps_s": steps, "lines_per_file": shape}));
                        }
                    }
                    if let Some(v) = v {
                        let (v2, _) = judge(&c, &steps, case);
                        match v2 {
                            Some(v2) if v2.key() == v.key() => out.violation(v),
                            _ => out.violation(Violation::new("nondeterministic", "replay-diverged", v.detail.clone(), v.case.clone())),
                        }
                    }
                });
            }
        }
    }
    out.max("max_depth_completed", d as u64);
}

/// Conformance check of the clock seam (not a deciding step): one real-time run of Age::Second
/// per naming scheme without virtual clock; the partition must agree with the wall-clock
/// seconds sampled around each call.
fn realtime_crosscheck(out: &mut Out) {
    for naming in NG {
        let sc = crate::scratch::Scratch::new("c09rt");
        let dir = sc.path().join("d");
        std::fs::create_dir_all(&dir).ok();
        let cfg = Cfg::rot(CritK::Age(AgeK::Second), naming, CleanK::Never);
        let err = sc.path().join("err.log");
        crate::hooks::set_ctx(None);
        let Ok((logger, handle)) = cfg.build_logger(&dir, &err) else { continue };
        let mut stamps: Vec<(i64, i64, String)> = Vec::new();
        for i in 0..9 {
            let msg = lg::payload(0, i, LINE - 1);
            let a = Local::now().timestamp();
            lg::log_info(&*logger, &msg);
            let b = Local::now().timestamp();
            stamps.push((a, b, msg));
            std::thread::sleep(Duration::from_millis(330));
        }
        handle.shutdown();
        drop(logger);
        drop(handle);
        let scan = family::scan(&dir, &cfg.parts, None, cfg.naming(), &[]);
        let mut file_of: std::collections::HashMap<String, usize> = std::collections::HashMap::new();
        if let Ok(cs) = scan.contents(&dir) {
            for (fi, (_, content)) in cs.iter().enumerate() {
                for l in family::split_lines(content, "\n").0 {
                    file_of.insert(l, fi);
                }
            }
        }
        out.evaluations += 1;
        let mut ok = file_of.len() == stamps.len();
        for w in stamps.windows(2) {
            let (fa, fb) = (file_of.get(&w[0].2), file_of.get(&w[1].2));
            // certainly the same second -> same file; certainly different seconds -> different files
            if w[0].0 == w[1].1 && w[0].1 == w[1].0 && fa != fb {
                ok = false;
            }
            if w[0].1 < w[1].0 && fa == fb {
                ok = false;
            }
        }
        if ok {
            out.count("realtime_crosschecks_ok", 1);
        } else {
            out.violation(Violation::new(
                "realtime-crosscheck",
                naming.short(),
                format!("real-time Age::Second run with {naming:?}: partition {file_of:?} does not agree with the sampled seconds {stamps:?}"),
                json!({"realtime": naming.short()}),
            ));
        }
    }
}

/// Second conformance check of the seam (real time, thorough tier, decides nothing by itself):
/// the period a file belongs to is the one in which it was *created*, also when its content
/// reaches it later. Buffered mode, Age::Second, append: a record is logged in second s0, the
/// logger is shut down (and thereby the buffer written) in second s1, and a restart with append
/// logs another record still in s1: the two records must be in different files.
fn realtime_created_crosscheck(out: &mut Out) {
    for naming in NG {
        let sc = crate::scratch::Scratch::new("c09rc");
        let dir = sc.path().join("d");
        std::fs::create_dir_all(&dir).ok();
        let mut cfg = Cfg::rot(CritK::Age(AgeK::Second), naming, CleanK::Never);
        cfg.mode = crate::lg::ModeK::BufDont(4096);
        cfg.append = true;
        let err = sc.path().join("err.log");
        crate::hooks::set_ctx(None);
        // start early in a second
        while Local::now().timestamp_subsec_millis() > 150 {
            std::thread::sleep(Duration::from_millis(20));
        }
        let Ok((logger, handle)) = cfg.build_logger(&dir, &err) else { continue };
        let m0 = lg::payload(0, 0, LINE - 1);
        lg::log_info(&*logger, &m0);
        let s0 = Local::now().timestamp();
        while Local::now().timestamp() == s0 || Local::now().timestamp_subsec_millis() < 100 {
            std::thread::sleep(Duration::from_millis(20));
        }
        handle.shutdown();
        drop(logger);
        drop(handle);
        let Ok((logger, handle)) = cfg.build_logger(&dir, &err) else { continue };
        let m1 = lg::payload(0, 1, LINE - 1);
        lg::log_info(&*logger, &m1);
        let s1 = Local::now().timestamp();
        handle.shutdown();
        drop(logger);
        drop(handle);
        out.evaluations += 1;
        if s1 != s0 + 1 {
            out.count("realtime_created_crosschecks_inconclusive", 1);
            continue;
        }
        let scan = family::scan(&dir, &cfg.parts, None, cfg.naming(), &[]);
        let mut file_of: std::collections::HashMap<String, usize> = std::collections::HashMap::new();
        if let Ok(cs) = scan.contents(&dir) {
            for (fi, (_, content)) in cs.iter().enumerate() {
                for l in family::split_lines(content, "\n").0 {
                    file_of.insert(l, fi);
                }
            }
        }
        if file_of.len() == 2 && file_of.get(&m0) != file_of.get(&m1) {
            out.count("realtime_created_crosschecks_ok", 1);
        } else {
            out.violation(Violation::new(
                "realtime-crosscheck",
                format!("created/{}", naming.short()),
                format!("real-time run, {naming:?}, BufferDontFlush, Age::Second, append: a record logged in second {s0} (written to its file by the shutdown in second {s1}) and a record logged after a restart in second {s1} are in {file_of:?}; files {:?}", scan.names()),
                json!({"realtime": naming.short()}),
            ));
        }
    }
}

fn replay(case: &Value) -> Vec<Violation> {
    if case.get("realtime").is_some() {
        let mut out = Out::default();
        realtime_crosscheck(&mut out);
        realtime_created_crosscheck(&mut out);
        return out.violations;
    }
    let unit = case["unit"].as_u64().unwrap_or(0) as usize;
    let (tz, use_utc) = TZS[(unit / (AGES.len() * NG9.len())).min(TZS.len() - 1)];
    set_tz(tz);
    let c = Case {
        tz,
        use_utc,
        age: AGES[(unit / NG9.len()) % AGES.len()],
        naming: NG9[unit % NG9.len()],
        start: case["start"].as_u64().unwrap_or(0) as u8,
        crit: case["crit"].as_u64().unwrap_or(0) as u8,
        base: case["base"].as_u64().unwrap_or(0) as usize,
        slow: case["slow"].as_bool().unwrap_or(false),
    };
    let steps: Vec<i64> = case["steps"].as_array().into_iter().flatten().filter_map(Value::as_i64).collect();
    println!("replay C09: {c:?} base {} steps {steps:?}", bases()[c.base]);
    judge(&c, &steps, case.clone()).0.into_iter().collect()
}
