//! C11 — a killed process loses no acknowledged direct-mode record and restarts cleanly.
//!
//! Crash overlay: a history is executed once on the real logger (direct mode); at *every*
//! file-system point (before each effect of writing, rotating, symlink replacement, cleanup and
//! compression) the directory is copied — exactly what a SIGKILL at that instant leaves, since
//! direct mode has no user-space buffer. Every copy is then the start directory of a new logger
//! (append on and off), which must start cleanly and continue without loss.
//! For one history per naming scheme every crash point is additionally executed for real: a
//! child process aborts at that point and its directory must equal the in-process copy.
use super::{all_workers, default_cap, Prop};
use crate::env::Env;
use crate::family::{self, Role};
use crate::fl::{HOp, Hist};
use crate::lg::{Cfg, CleanK, CritK, NamingK, NG};
use crate::report::{Meta, Out, Violation};
use crate::{run_isolated, scratch, Ran};
use chrono::{DateTime, Local};
use serde_json::{json, Value};
use std::collections::BTreeMap;
use std::path::{Path, PathBuf};
use std::sync::atomic::{AtomicUsize, Ordering};
use std::sync::{Arc, Mutex};
use std::time::Duration;

pub fn prop() -> Prop {
    Prop {
        id: "C11",
        meta,
        units,
        run_unit,
        replay,
        bounds,
        wall_cap_s: default_cap,
        max_workers: all_workers,
    }
}

fn meta() -> Meta {
    Meta {
        id: "C11",
        level: "fault_enumeration",
        rule: "for every history (the fixed word W W W5 W W R W5 Reopen W5 W5 W plus all words of length <= 3 over {W20, W5, R} (quick) / <= 5 over {W20, W5, R, Reopen} (thorough), each after 0 or 1 clean earlier runs) and every configuration (naming x cleanup (for the direct namings also with a plain-file limit of 0) x symlink x append), every file-system point hit by the history is a crash state; each crash state is restarted with append on and off; distinct_nontrivial = distinct (configuration, history, crash site, occurrence) where the crash falls inside a rotation, cleanup or compression (not directly before a plain write); with a symlink configured the link must resolve to the file holding the restarted run's last record; of all files known the newest k+m must survive the restarted run; the files are judged after the first record of the restarted run as well as at its end; when the interposition shim is loaded (LD_PRELOAD, harness/shim/fsshim.c) every libc call that changes the directory tree (rename, link, unlink, symlink, open with O_CREAT / O_TRUNC, mkdir, rmdir, truncate) below the log directory is a crash point as well, whether or not a guarded hook sits in front of it (states equal to the preceding one are not recorded twice); the real-kill validation aborts child processes at those points, too",
        assumptions: vec![
            "process kill, not power loss: the directory as the kernel sees it survives; a single write(2) is atomic with respect to the kill".into(),
            "a kill inside io::copy is represented by the state before gz finish (truncated gzip stream, original still present)".into(),
            "cleanup runs in the logging thread (every effect is on the killed thread's path)".into(),
        ],
    }
}

const LIMIT: u64 = 15;

#[derive(Clone, Debug)]
struct Case {
    cfg: Cfg,
    prior_restart: bool,
}

fn grid() -> Vec<Case> {
    let mut g = Vec::new();
    for naming in NG {
        // tight limits (every cleanup removes something) and generous ones (what an interrupted
        // cleanup leaves behind must survive the restarted run)
        let mut cleans = vec![CleanK::Never, CleanK::Log(1), CleanK::Gz(1), CleanK::LogGz(1, 1), CleanK::Gz(6), CleanK::LogGz(1, 6), CleanK::Gz(2)];
        // a plain-file limit of 0: under a direct naming the file being written to is exempt
        if naming.direct() {
            cleans.extend([CleanK::Log(0), CleanK::LogGz(0, 2)]);
        }
        for clean in cleans {
            for symlink in [false, true] {
                for append in [false, true] {
                    for prior_restart in [false, true] {
                        let mut cfg = Cfg::rot(CritK::Size(LIMIT), naming, clean);
                        cfg.symlink = symlink;
                        cfg.append = append;
                        g.push(Case { cfg, prior_restart });
                    }
                }
            }
        }
    }
    g
}

fn fixed_word() -> Vec<HOp> {
    // (the records after Reopen are small: they go to the re-opened file, no rotation is due)
    vec![HOp::W(20), HOp::W(20), HOp::W(5), HOp::W(20), HOp::W(20), HOp::R, HOp::W(5), HOp::Reopen, HOp::W(5), HOp::W(5), HOp::W(20)]
}

fn words(tier: &str) -> Vec<Vec<HOp>> {
    let mut v = vec![fixed_word()];
    {
        let a = [HOp::W(20), HOp::W(5), HOp::R, HOp::Reopen];
        // (quick: words without reopen_output; it is part of the fixed word)
        crate::for_each_word(if tier == "quick" { 3 } else { 4 }, if tier == "quick" { 3 } else { 5 }, |w| {
            if !w.is_empty() {
                v.push(w.iter().map(|i| a[*i]).collect());
            }
        });
    }
    v
}

fn units(_tier: &str) -> usize {
    grid().len() + NG.len()
}
fn bounds(tier: &str) -> Value {
    json!({"configurations": grid().len(), "histories_per_configuration": words(tier).len(), "restart_variants_per_crash_state": 2, "real_kill_validation_histories": NG.len(), "system_call_level_crash_points": crate::hooks::shim_available()})
}

#[derive(Clone, Debug)]
struct CrashState {
    site: &'static str,
    occ: usize,
    idx: usize,
    acked: usize,
    dir: PathBuf,
    created: BTreeMap<String, DateTime<Local>>,
    now: DateTime<Local>,
}

const SYMLINK: &str = "link_to_current";
/// crash states announced by the system-call shim are numbered from here (hook hits from 0)
const SYS_BASE: usize = 1_000_000;

fn dir_signature(dir: &Path) -> Vec<(String, u64, u64, String)> {
    use std::os::unix::fs::MetadataExt;
    let mut v = Vec::new();
    if let Ok(rd) = std::fs::read_dir(dir) {
        for e in rd.flatten() {
            let p = e.path();
            if let Ok(md) = std::fs::symlink_metadata(&p) {
                let target = std::fs::read_link(&p).map(|t| t.to_string_lossy().to_string()).unwrap_or_default();
                v.push((e.file_name().to_string_lossy().to_string(), md.len(), md.ino(), target));
            }
        }
    }
    v.sort();
    v
}

/// Executes the history with the crash overlay; returns the crash states (including the final
/// state) and all lines in logging order.
fn run_with_snapshots(c: &Case, word: &[HOp], snaps_root: &Path, abort_at: Option<usize>, fixed_dir: Option<&Path>) -> Result<(Vec<CrashState>, Vec<Vec<u8>>), String> {
    let env = Env::new("c11");
    let dir = match fixed_dir {
        Some(d) => {
            std::fs::create_dir_all(d).map_err(|e| e.to_string())?;
            d.to_path_buf()
        }
        None => env.dir.clone(),
    };
    let mut env = env;
    env.dir = dir.clone();
    let acked = Arc::new(AtomicUsize::new(0));
    let states: Arc<Mutex<Vec<CrashState>>> = Arc::new(Mutex::new(Vec::new()));
    env.enter();
    let mut h = Hist::new(&env, c.cfg.clone());
    if c.prior_restart {
        // a clean earlier run that leaves rotated files behind
        for op in [HOp::W(20), HOp::W(20), HOp::W(20)] {
            h.apply(op).map_err(|e| format!("{e:?}"))?;
        }
        h.stop();
        env.clock.advance_secs(1);
    }
    acked.store(h.accepted.len(), Ordering::SeqCst);
    // the directory as a kill would leave it, by (name, length, inode, link target): states that a
    // hook and the system call behind it both announce are recorded once
    let last_sig: Arc<Mutex<Option<Vec<(String, u64, u64, String)>>>> = Arc::new(Mutex::new(None));
    {
        let mut g = env.ctx.fs.lock().unwrap();
        g.enabled = true;
        g.abort_at = abort_at.filter(|k| *k < SYS_BASE);
        if crate::hooks::shim_available() {
            g.sys_dir = Some(dir.clone());
            g.sys_armed = true;
            g.abort_at_sys = abort_at.filter(|k| *k >= SYS_BASE).map(|k| k - SYS_BASE);
        }
        if abort_at.is_none() && crate::hooks::shim_available() {
            let acked = Arc::clone(&acked);
            let states = Arc::clone(&states);
            let dir = dir.clone();
            let root = snaps_root.to_path_buf();
            let clock = Arc::clone(&env.clock);
            let last_sig = Arc::clone(&last_sig);
            g.on_sys = Some(Box::new(move |op, n, _path| {
                // (listing a directory changes nothing: not a crash point)
                if op == "sys:opendir" {
                    return;
                }
                let sig = dir_signature(&dir);
                let mut ls = last_sig.lock().unwrap();
                if ls.as_ref() == Some(&sig) {
                    return;
                }
                *ls = Some(sig);
                let idx = SYS_BASE + n;
                let to = root.join(format!("s{idx}"));
                scratch::copy_dir(&dir, &to);
                let mut created = BTreeMap::new();
                for name in family::list_names(&dir) {
                    if let Some(t) = clock.created_if_known(&dir.join(&name)) {
                        created.insert(name, t);
                    }
                }
                states.lock().unwrap().push(CrashState {
                    site: op,
                    occ: n,
                    idx,
                    acked: acked.load(Ordering::SeqCst),
                    dir: to,
                    created,
                    now: clock.peek(),
                });
            }));
        }
        if abort_at.is_none() {
            let last_sig = Arc::clone(&last_sig);
            let acked = Arc::clone(&acked);
            let states = Arc::clone(&states);
            let dir = dir.clone();
            let root = snaps_root.to_path_buf();
            let clock = Arc::clone(&env.clock);
            g.on_hit = Some(Box::new(move |site, occ, idx, _path| {
                *last_sig.lock().unwrap() = Some(dir_signature(&dir));
                let to = root.join(format!("s{idx}"));
                scratch::copy_dir(&dir, &to);
                let mut created = BTreeMap::new();
                for n in family::list_names(&dir) {
                    if let Some(t) = clock.created_if_known(&dir.join(&n)) {
                        created.insert(n, t);
                    }
                }
                states.lock().unwrap().push(CrashState {
                    site,
                    occ,
                    idx,
                    acked: acked.load(Ordering::SeqCst),
                    dir: to,
                    created,
                    now: clock.peek(),
                });
            }));
        }
    }
    for op in word {
        h.apply(*op).map_err(|e| format!("{e:?}"))?;
        acked.store(h.accepted.len(), Ordering::SeqCst);
    }
    // final state: a kill after the last operation (no shutdown)
    {
        let mut g = env.ctx.fs.lock().unwrap();
        let idx = g.trace.len();
        if let Some(mut f) = g.on_hit.take() {
            f("end", 0, idx, Path::new(""));
        }
        g.enabled = false;
    }
    let lines = h.accepted.clone();
    h.stop();
    drop(h);
    env.leave();
    let errs = env.errlines();
    if !errs.is_empty() {
        return Err(format!("error channel during the fault-free history: {errs:?}"));
    }
    let st = states.lock().unwrap().clone();
    Ok((st, lines))
}

struct Fail {
    clause: &'static str,
    detail: String,
}

/// Lines found in a directory, reading intact files in age order; a plain file wins over a
/// same-named (possibly partial) .gz; an unreadable .gz without plain sibling is an error.
fn read_lines(dir: &Path, cfg: &Cfg) -> Result<(Vec<u8>, Vec<String>, usize, usize), String> {
    let scan = family::scan(dir, &cfg.parts, None, cfg.naming(), &[SYMLINK]);
    if !scan.foreign.is_empty() {
        return Err(format!("files outside the family: {:?}", scan.foreign));
    }
    let plain_logicals: Vec<String> = scan.members.iter().filter(|m| !m.gz).map(|m| m.logical.clone()).collect();
    let mut out = Vec::new();
    let mut names = Vec::new();
    let (mut plain, mut gz) = (0, 0);
    for m in &scan.members {
        if m.gz && plain_logicals.contains(&m.logical) {
            continue; // left-over of an interrupted compression next to its intact original
        }
        let content = family::read_file(&dir.join(&m.name))?;
        out.extend(content);
        names.push(m.name.clone());
        if m.gz {
            gz += 1;
        } else if m.role == Role::Rotated || cfg.naming().is_some_and(NamingK::direct) {
            plain += 1;
        }
    }
    Ok((out, names, plain, gz))
}

/// Logical names (".gz" stripped, each once) of the family's files in age order, without the file
/// with the static current infix.
fn logical_names(dir: &Path, cfg: &Cfg) -> Vec<String> {
    let scan = family::scan(dir, &cfg.parts, None, cfg.naming(), &[SYMLINK]);
    let mut v: Vec<String> = Vec::new();
    for m in &scan.members {
        if m.role == Role::Current && cfg.naming().and_then(NamingK::current_infix).is_some() {
            continue;
        }
        if !v.contains(&m.logical) {
            v.push(m.logical.clone());
        }
    }
    v
}

/// Matches the lines found against the records: all records with index < `must` (acknowledged)
/// are required, later ones (in flight / new) are given in `tail` and are required too; a
/// prefix may be missing only if `may_drop` (cleanup limit). One record in flight (index ==
/// `must`) is optional. Returns the number of dropped leading records.
fn match_stream(found: &[u8], ending: &str, lines: &[Vec<u8>], must: usize, inflight: Option<&Vec<u8>>, tail: &[Vec<u8>], may_drop: bool) -> Result<usize, String> {
    let (got, rest) = family::split_lines(found, ending);
    if !rest.is_empty() {
        // a torn last line can only be the record in flight
        let r = String::from_utf8_lossy(&rest).to_string();
        let ok = inflight.is_some_and(|l| l.starts_with(&rest));
        if !ok {
            return Err(format!("unterminated data at the end that is not a prefix of the record in flight: {r:?}"));
        }
    }
    let want_all: Vec<String> = lines[..must]
        .iter()
        .map(|l| String::from_utf8_lossy(&l[..l.len() - ending.len()]).to_string())
        .collect();
    let infl: Option<String> = inflight.map(|l| String::from_utf8_lossy(&l[..l.len() - ending.len()]).to_string());
    let tailv: Vec<String> = tail.iter().map(|l| String::from_utf8_lossy(&l[..l.len() - ending.len()]).to_string()).collect();
    // try every number of dropped leading records (the cleanup limit may also have removed
    // files written by the restarted run itself)
    for with_inflight in [false, true] {
        if with_inflight && infl.is_none() {
            continue;
        }
        let mut exp: Vec<&String> = want_all.iter().collect();
        if with_inflight {
            exp.push(infl.as_ref().unwrap());
        }
        exp.extend(tailv.iter());
        let max_drop = if may_drop { exp.len() } else { 0 };
        for drop in 0..=max_drop {
            let e = &exp[drop..];
            if e.len() == got.len() && e.iter().zip(got.iter()).all(|(a, b)| *a == b) {
                return Ok(drop);
            }
        }
    }
    Err(format!("lines found {got:?}\n   acknowledged {want_all:?} in flight {infl:?} new {tailv:?}"))
}

fn check_crash_state(c: &Case, lines: &[Vec<u8>], st: &CrashState, append2: bool) -> Result<(), Fail> {
    let ending = c.cfg.ending();
    let may_drop = !matches!(c.cfg.rotation, Some((_, _, CleanK::Never)));
    let inflight = lines.get(st.acked);
    // (1) every acknowledged record is in the snapshot
    let (found, names, _, _) = read_lines(&st.dir, &c.cfg).map_err(|e| Fail {
        clause: "acked-missing",
        detail: format!("snapshot unreadable: {e}"),
    })?;
    match_stream(&found, ending, lines, st.acked, inflight, &[], may_drop).map_err(|e| Fail {
        clause: "acked-missing",
        detail: format!("{} acknowledged records; snapshot files {names:?}\n   {e}", st.acked),
    })?;
    let logical_before = logical_names(&st.dir, &c.cfg);
    // (2)+(3)+(4): restart on a copy of the snapshot
    let env = Env::at("c11r", st.now + chrono::Duration::seconds(1));
    std::fs::remove_dir_all(&env.dir).ok();
    scratch::copy_dir(&st.dir, &env.dir);
    for (n, t) in &st.created {
        env.clock.set_created(&env.dir.join(n), *t);
    }
    // a symlink in the copy points into the original directory: re-point it
    let link = env.dir.join(SYMLINK);
    if let Ok(target) = std::fs::read_link(&link) {
        if let Some(f) = target.file_name() {
            std::fs::remove_file(&link).ok();
            std::os::unix::fs::symlink(env.dir.join(f), &link).ok();
        }
    }
    env.enter();
    let mut cfg2 = c.cfg.clone();
    cfg2.append = append2;
    // what must hold for the files, after the first record of the restarted run (its first
    // rotation and cleanup: later rotations push old files out legitimately and would hide what
    // the first cleanup did to the left-overs of the crash) and at the end
    let judge_files = |new_lines: &[Vec<u8>], when: &str| -> Result<Vec<String>, Fail> {
        let (found, names, plain, gz) = read_lines(&env.dir, &cfg2).map_err(|e| Fail {
            clause: "tail-broken-after-restart",
            detail: format!("unreadable {when}: {e}"),
        })?;
        match_stream(&found, ending, lines, st.acked, inflight, new_lines, may_drop).map_err(|e| Fail {
            clause: "tail-broken-after-restart",
            detail: format!("{when}: files {names:?}\n   {e}"),
        })?;
        if let Some((k, m)) = c.cfg.rotation.and_then(|r| r.2.limits()) {
            let kk = if c.cfg.naming().is_some_and(NamingK::direct) { k.max(1) } else { k };
            // "preserves all earlier records that the cleanup limit permits": of all files known
            // (those the crash left and those the restarted run added, in age order) the newest
            // k + m must still exist
            let logical_after = logical_names(&env.dir, &cfg2);
            let mut all = logical_before.clone();
            for n in &logical_after {
                if !all.contains(n) {
                    all.push(n.clone());
                }
            }
            let keep = kk + m;
            let newest: Vec<&String> = all.iter().rev().take(keep).collect();
            if let Some(lost) = newest.iter().find(|n| !logical_after.contains(n)) {
                return Err(Fail {
                    clause: "over-deleted-after-restart",
                    detail: format!("{when}: limits {k}/{m} permit the newest {keep} files, but {lost} is gone: files before the restart {logical_before:?}, now {names:?}"),
                });
            }
            if plain > kk || gz > m {
                return Err(Fail {
                    clause: "limits-after-restart",
                    detail: format!("{when}: {plain} plain / {gz} compressed files after the cleanup, limits {k}/{m}: {names:?}"),
                });
            }
        }
        Ok(names)
    };
    let mut h = Hist::new(&env, cfg2.clone());
    h.tag = 1;
    for (oi, op) in [HOp::W(20), HOp::W(20)].into_iter().enumerate() {
        if let Err(e) = h.apply(op) {
            return Err(Fail {
                clause: "restart-error",
                detail: format!("{e:?}"),
            });
        }
        if oi == 0 {
            judge_files(&h.accepted, "after the first record of the restarted run")?;
        }
    }
    h.stop();
    let new_lines = h.accepted.clone();
    drop(h);
    env.leave();
    let errs = env.errlines();
    if !errs.is_empty() {
        return Err(Fail {
            clause: "restart-error",
            detail: format!("error channel of the restarted logger: {errs:?}"),
        });
    }
    let names = judge_files(&new_lines, "after the restarted run")?;
    // "with all other guarantees intact": the symlink resolves to the file the restarted logger
    // wrote its last record to
    if c.cfg.symlink {
        let last = new_lines.last().cloned().unwrap_or_default();
        let through_link = std::fs::read(&link);
        if !through_link.as_ref().is_ok_and(|b| b.ends_with(&last)) {
            return Err(Fail {
                clause: "symlink-stale-after-restart",
                detail: format!(
                    "after the restarted run the symlink points to {:?}, read through it: {:?}; the last record {:?} is in none of that; files {names:?}",
                    std::fs::read_link(&link).ok().and_then(|t| t.file_name().map(|f| f.to_string_lossy().to_string())),
                    through_link.map(|b| String::from_utf8_lossy(&b).to_string()),
                    String::from_utf8_lossy(&last)
                ),
            });
        }
    }
    Ok(())
}

fn cause(c: &Case, st: &CrashState, append2: bool) -> String {
    let clean = match c.cfg.rotation.map(|r| r.2) {
        Some(CleanK::Never) | None => "never",
        Some(CleanK::Log(_)) => "keeplog",
        Some(CleanK::Gz(_)) => "gz",
        Some(CleanK::LogGz(..)) => "log+gz",
    };
    format!(
        "{}/{}/{clean}/{}",
        st.site,
        c.cfg.naming().map_or("none", NamingK::short),
        if append2 { "append'" } else { "no-append'" }
    )
}

fn run_case(c: &Case, word: &[HOp], out_states: &mut Vec<(String, usize, bool)>) -> Vec<(String, String, String, Value)> {
    // returns violations as (clause, cause, detail, extra-case)
    let root = scratch::Scratch::new("c11snaps");
    let mut bad = Vec::new();
    let (states, lines) = match run_with_snapshots(c, word, root.path(), None, None) {
        Ok(x) => x,
        Err(e) => {
            bad.push(("history-error".to_string(), format!("{}", c.cfg.naming().map_or("none", NamingK::short)), e, json!({})));
            return bad;
        }
    };
    for st in &states {
        for append2 in [false, true] {
            let interesting = !matches!(st.site, "write" | "end");
            out_states.push((format!("{}#{}", st.site, st.occ), st.idx, interesting));
            if let Err(f) = check_crash_state(c, &lines, st, append2) {
                bad.push((
                    f.clause.to_string(),
                    cause(c, st, append2),
                    format!("cfg={:?} prior_restart={}\n  history={word:?}\n  killed before {}#{} (hit {}), {} records acknowledged, restart with append={append2}\n  {}", c.cfg, c.prior_restart, st.site, st.occ, st.idx, st.acked, f.detail),
                    json!({"site": st.site, "occ": st.occ, "hit": st.idx, "append2": append2}),
                ));
            }
        }
    }
    bad
}

fn encode_word(w: &[HOp]) -> Vec<String> {
    w.iter().map(|o| format!("{o:?}")).collect()
}
fn decode_word(v: &Value) -> Vec<HOp> {
    v.as_array()
        .into_iter()
        .flatten()
        .filter_map(|s| match s.as_str()? {
            "W(20)" => Some(HOp::W(20)),
            "W(5)" => Some(HOp::W(5)),
            "R" => Some(HOp::R),
            "Reopen" => Some(HOp::Reopen),
            _ => None,
        })
        .collect()
}

fn run_unit(tier: &str, unit: usize, out: &mut Out) {
    let g = grid();
    if unit >= g.len() {
        real_kill_unit(unit - g.len(), out);
        return;
    }
    let c = g[unit].clone();
    for word in words(tier) {
        let cc = c.clone();
        let ww = word.clone();
        let r = run_isolated(Duration::from_secs(120), move || {
            let mut sts = Vec::new();
            let bad = run_case(&cc, &ww, &mut sts);
            (bad, sts)
        });
        match r {
            Ran::Done((bad, sts)) => {
                out.evaluations += sts.len() as u64;
                out.transitions += sts.len() as u64;
                for (name, idx, interesting) in &sts {
                    out.state(&(unit, &word, idx));
                    if *interesting {
                        out.nontrivial(&(unit, &word, name));
                    }
                    out.outcome(name.split('#').next().unwrap_or("").to_string());
                }
                if out.samples.len() < 2 && sts.len() > 60 {
                    let pts: Vec<&String> = sts.iter().map(|s| &s.0).collect();
                    out.sample(json!({"cfg": format!("{:?}", c.cfg.rotation), "symlink": c.cfg.symlink, "history": format!("{word:?}"), "crash_points(site#occurrence, each restarted with append on/off)": pts}));
                }
                for (clause, cause, detail, extra) in bad {
                    let mut case = json!({"unit": unit, "word": encode_word(&word)});
                    case["at"] = extra;
                    out.violation(Violation::new(&clause, cause, detail, case));
                }
            }
            Ran::Panicked(m) => out.violation(Violation::new(
                "restart-panic",
                format!("{}", c.cfg.naming().map_or("none", NamingK::short)),
                format!("cfg={:?} history={word:?}: {m}", c.cfg),
                json!({"unit": unit, "word": encode_word(&word)}),
            )),
            Ran::Hung => out.violation(Violation::new(
                "hang",
                format!("{}", c.cfg.naming().map_or("none", NamingK::short)),
                format!("cfg={:?} history={word:?}", c.cfg),
                json!({"unit": unit, "word": encode_word(&word)}),
            )),
        }
    }
}

// ---------------------------------------------------------------- real kills

fn dir_fingerprint(dir: &Path) -> BTreeMap<String, Vec<u8>> {
    let mut m = BTreeMap::new();
    for n in family::list_names(dir) {
        let p = dir.join(&n);
        match std::fs::symlink_metadata(&p) {
            Ok(md) if md.file_type().is_symlink() => {
                let t = std::fs::read_link(&p).ok().and_then(|t| t.file_name().map(|f| f.to_string_lossy().to_string())).unwrap_or_default();
                m.insert(n, format!("-> {t}").into_bytes());
            }
            Ok(md) if md.is_file() => {
                m.insert(n, std::fs::read(&p).unwrap_or_default());
            }
            _ => {}
        }
    }
    m
}

fn real_kill_case(i: usize) -> Case {
    let mut cfg = Cfg::rot(CritK::Size(LIMIT), NG[i], CleanK::LogGz(1, 1));
    cfg.symlink = true;
    Case {
        cfg,
        prior_restart: false,
    }
}

fn real_kill_unit(i: usize, out: &mut Out) {
    let c = real_kill_case(i);
    let word = fixed_word();
    let root = scratch::Scratch::new("c11real");
    let (states, _) = match run_with_snapshots(&c, &word, &root.path().join("snaps"), None, None) {
        Ok(x) => x,
        Err(e) => {
            out.violation(Violation::new("machinery", "real-kill", e, json!({"real_kill": i})));
            return;
        }
    };
    let exe = std::env::current_exe().expect("exe");
    for st in &states {
        if st.site == "end" {
            continue;
        }
        let d = root.path().join(format!("k{}", st.idx));
        let status = std::process::Command::new(&exe)
            .args(["child", "c11", &i.to_string(), &st.idx.to_string()])
            .arg(&d)
            .stdout(std::process::Stdio::null())
            .stderr(std::process::Stdio::null())
            .spawn()
            .and_then(|mut ch| {
                let pid = ch.id();
                let st = ch.wait();
                // the child is aborted by design and cannot remove its own scratch root
                if let Some(parent) = scratch::root().parent() {
                    std::fs::remove_dir_all(parent.join(format!("fxv.{pid}"))).ok();
                }
                st
            });
        out.evaluations += 1;
        let aborted = status.as_ref().map_or(false, |s| !s.success());
        if !aborted {
            out.violation(Violation::new("machinery", "real-kill", format!("child for hit {} did not abort: {status:?}", st.idx), json!({"real_kill": i})));
            continue;
        }
        let a = dir_fingerprint(&st.dir);
        let b = dir_fingerprint(&d);
        if a == b {
            out.traces_validated += 1;
        } else {
            out.violation(Violation::new(
                "machinery",
                "crash-model!=real-kill",
                format!("naming {:?}: directory left by a process aborted at hit {} ({}#{}) differs from the in-process snapshot: real {:?} vs snapshot {:?}", NG[i], st.idx, st.site, st.occ, b.keys().collect::<Vec<_>>(), a.keys().collect::<Vec<_>>()),
                json!({"real_kill": i}),
            ));
        }
    }
    out.count("real_kill_points", states.len() as u64 - 1);
}

/// `fxv child c11 <naming idx> <hit idx> <dir>`: runs the fixed history and aborts at the hit.
pub fn child(args: &[String]) -> i32 {
    let i: usize = args.first().and_then(|s| s.parse().ok()).unwrap_or(0);
    let k: usize = args.get(1).and_then(|s| s.parse().ok()).unwrap_or(0);
    let Some(dir) = args.get(2) else { return 2 };
    crate::hooks::init();
    let c = real_kill_case(i);
    let root = scratch::Scratch::new("c11child");
    let _ = run_with_snapshots(&c, &fixed_word(), root.path(), Some(k), Some(Path::new(dir)));
    0
}

fn replay(case: &Value) -> Vec<Violation> {
    let g = grid();
    let unit = case["unit"].as_u64().unwrap_or(0) as usize;
    let Some(c) = g.get(unit) else { return vec![] };
    let word = decode_word(&case["word"]);
    println!("replay C11: cfg={:?} prior_restart={}\n  history={word:?}\n  kill point: {}", c.cfg, c.prior_restart, case["at"]);
    let mut sts = Vec::new();
    let bad = run_case(c, &word, &mut sts);
    let want_hit = case["at"]["hit"].as_u64();
    let want_app = case["at"]["append2"].as_bool();
    bad.into_iter()
        .filter(|(_, _, _, extra)| want_hit.is_none() || (extra["hit"].as_u64() == want_hit && extra["append2"].as_bool() == want_app))
        .map(|(clause, cause, detail, _)| Violation::new(&clause, cause, detail, case.clone()))
        .collect()
}
