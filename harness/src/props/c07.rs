//! C07 — cleanup keeps exactly the newest files, compresses losslessly, spares the current file.
//!
//! (E1) all histories up to a depth bound over {rotating write, small write, trigger_rotation,
//! clock +1 s, restart with/without append} for naming x cleanup(k,m) x suffix x {cleanup in the
//! logging thread, cleanup in the async writer thread}; the step oracle runs after every
//! operation (sync) or after shutdown (async).
//! (E2) background cleanup thread: all schedules up to a preemption bound of logging thread vs
//! cleanup thread at file-system-call granularity (see `sched_units`).
use super::{all_workers, default_cap, Prop};
use crate::env::Env;
use crate::family::{self, Role};
use crate::fl::{suffix_of_lines, HOp, Hist};
use crate::lg::{Cfg, CleanK, CritK, ModeK, NamingK, NG};
use crate::report::{Meta, Out, Violation};
use crate::sched::{self, Abort, Sched, SchedCfg};
use crate::{for_each_word, run_isolated, Ran};
use serde_json::{json, Value};
use std::collections::BTreeMap;
use std::sync::Arc;
use std::time::Duration;

pub fn prop() -> Prop {
    Prop {
        id: "C07",
        meta,
        units,
        run_unit,
        replay,
        bounds,
        wall_cap_s: default_cap,
        max_workers: all_workers,
    }
}

fn meta() -> Meta {
    Meta {
        id: "C07",
        level: "model_checking",
        rule: "E1: every history up to the depth bound over {W(20) (rotates), W(5), R, T(+1s), Restart(append), Restart(no append)} for naming x Cleanup{KeepLogFiles(k), KeepCompressedFiles(m), KeepLogAndCompressedFiles(k,m)}, k,m in 0..2 x suffix {log, none, a.b, txt} x cleanup in the logging thread / in the async writer thread; E2: every schedule with <= p preemptions of 3-4 rotations against the background cleanup thread, scheduling points at each listing/remove/compress step; states = distinct (configuration, directory shape) reached, transitions = operations executed + scheduling decisions; non-trivial = at least one file was removed or compressed; plus buffered configurations (judged at restarts and after shutdown); plus eight configurations under TZ=Europe/Berlin starting inside the local hour that occurs twice at the end of daylight saving; plus two E2 cases in which shutdown() races with a thread that holds the un-modelled state lock (the cleanup is complete when it returns); buffered E2 cases with a compressing background cleanup (no existing file is empty); a compressed file that exists before and after an operation keeps its content",
        assumptions: vec![
            "size limit 15; lines of 20 and 5 bytes; virtual clock".into(),
            "count limits: rotated plain files <= k (direct namings: plain files incl. the current one <= max(k,1)), compressed <= m".into(),
        ],
    }
}

const LIMIT: u64 = 15;

#[derive(Clone, Debug)]
struct Case {
    cfg: Cfg,
    depth_q: usize,
    depth_t: usize,
    /// the history runs in a zone with daylight saving (TZ=Europe/Berlin) and starts at
    /// 2023-10-29 02:30:00 CEST, inside the local hour that occurs twice that night: the
    /// timestamps in the file names are ambiguous as local times (the clock itself does not
    /// jump back within the history)
    dst: bool,
}

fn cleanups() -> Vec<CleanK> {
    let mut v = Vec::new();
    for k in 0..3 {
        v.push(CleanK::Log(k));
    }
    for m in 0..3 {
        v.push(CleanK::Gz(m));
    }
    for k in 0..3 {
        for m in 0..3 {
            v.push(CleanK::LogGz(k, m));
        }
    }
    v
}

fn grid() -> Vec<Case> {
    let mut g = Vec::new();
    for naming in NG {
        for clean in cleanups() {
            g.push(Case {
                cfg: Cfg::rot(CritK::Size(LIMIT), naming, clean),
                depth_q: 4,
                depth_t: 5,
                dst: false,
            });
        }
    }
    for sfx in [None, Some("a.b"), Some("txt")] {
        for naming in NG {
            for clean in [CleanK::Log(1), CleanK::Gz(1), CleanK::LogGz(1, 1)] {
                let mut cfg = Cfg::rot(CritK::Size(LIMIT), naming, clean);
                cfg.parts.suffix = sfx.map(String::from);
                g.push(Case {
                    cfg,
                    depth_q: 4,
                    depth_t: 5,
                dst: false,
                });
            }
        }
    }
    // background cleanup thread, free running: what shutdown() leaves does not depend on timing
    for naming in NG {
        for clean in [CleanK::Log(1), CleanK::Gz(1), CleanK::LogGz(1, 1)] {
            let mut cfg = Cfg::rot(CritK::Size(LIMIT), naming, clean);
            cfg.bg_cleanup = true;
            g.push(Case {
                cfg,
                depth_q: 4,
                depth_t: 5,
                dst: false,
            });
        }
    }
    // buffered: the tail of a rotated file sits in the buffer when the rotation's cleanup runs
    for naming in NG {
        for clean in [CleanK::Log(1), CleanK::Gz(1), CleanK::LogGz(0, 1), CleanK::LogGz(1, 1)] {
            let mut cfg = Cfg::rot(CritK::Size(LIMIT), naming, clean);
            cfg.mode = ModeK::BufDont(64);
            g.push(Case {
                cfg,
                depth_q: 4,
                depth_t: 5,
                dst: false,
            });
        }
    }
    // local times that occur twice (end of daylight saving)
    for naming in [NamingK::Timestamps, NamingK::TimestampsDirect, NamingK::CustomCur, NamingK::CustomDirect] {
        for clean in [CleanK::Log(1), CleanK::Gz(1)] {
            g.push(Case {
                cfg: Cfg::rot(CritK::Size(LIMIT), naming, clean),
                depth_q: 4,
                depth_t: 5,
                dst: true,
            });
        }
    }
    for naming in NG {
        for clean in [CleanK::Log(1), CleanK::Gz(2), CleanK::LogGz(1, 1)] {
            let mut cfg = Cfg::rot(CritK::Size(LIMIT), naming, clean);
            cfg.mode = ModeK::Async(2, 8, 0);
            g.push(Case {
                cfg,
                depth_q: 3,
                depth_t: 4,
                dst: false,
            });
        }
    }
    g
}

fn alphabet() -> Vec<HOp> {
    vec![
        HOp::W(20),
        HOp::W(5),
        HOp::R,
        HOp::T(1),
        HOp::Restart(true),
        HOp::Restart(false),
    ]
}

// ---------------------------------------------------------------- E2 harnesses (background thread)

#[derive(Clone, Debug)]
struct SCase {
    cfg: Cfg,
    rotations: usize,
    bound_q: usize,
    bound_t: usize,
    /// another thread calls reopen_output() (holds the state lock over a scheduling point) while
    /// the driver shuts down; the state lock is un-modelled (threads really block on it)
    racing: bool,
}
fn sched_cases() -> Vec<SCase> {
    let mut v = Vec::new();
    for naming in [NamingK::Numbers, NamingK::TimestampsDirect, NamingK::NumbersDirect, NamingK::Timestamps] {
        for clean in [CleanK::Log(1), CleanK::Gz(1), CleanK::LogGz(1, 1)] {
            let mut cfg = Cfg::rot(CritK::Size(LIMIT), naming, clean);
            cfg.bg_cleanup = true;
            v.push(SCase {
                cfg,
                rotations: 3,
                bound_q: 1,
                bound_t: 3,
                racing: false,
            });
        }
    }
    // buffered mode with direct namings and a compressing cleanup in the background: a rotated
    // file is compressed only with everything that was logged into it
    for naming in [NamingK::NumbersDirect, NamingK::TimestampsDirect, NamingK::Numbers, NamingK::Timestamps] {
        for clean in [CleanK::Gz(1), CleanK::LogGz(1, 1)] {
            let mut cfg = Cfg::rot(CritK::Size(LIMIT), naming, clean);
            cfg.bg_cleanup = true;
            cfg.mode = crate::lg::ModeK::BufDont(64);
            v.push(SCase {
                cfg,
                rotations: 3,
                bound_q: 1,
                bound_t: 3,
                racing: false,
            });
        }
    }
    // shutdown() while another thread holds the state lock: when it returns, the cleanup is
    // complete all the same
    for (naming, clean) in [(NamingK::Numbers, CleanK::Log(1)), (NamingK::TimestampsDirect, CleanK::Gz(1))] {
        let mut cfg = Cfg::rot(CritK::Size(LIMIT), naming, clean);
        cfg.bg_cleanup = true;
        v.push(SCase {
            cfg,
            rotations: 2,
            bound_q: 2,
            bound_t: 3,
            racing: true,
        });
    }
    v
}

fn e1_units() -> usize {
    grid().len() * alphabet().len()
}
fn units(_tier: &str) -> usize {
    e1_units() + sched_cases().len()
}
fn bounds(tier: &str) -> Value {
    let q = tier == "quick";
    json!({"e1_configurations": grid().len(), "e1_depth": if q { "3-4" } else { "4-5" }, "alphabet": format!("{:?}", alphabet()),
           "e2_harnesses": sched_cases().len(), "e2_preemption_bound": if q { 1 } else { 3 }, "e2_rotations": 3})
}

// ---------------------------------------------------------------- step oracle

type Snap = BTreeMap<String, (bool, Vec<u8>)>; // logical name -> (gz, content)

struct View {
    snap: Snap,
    names: Vec<String>,
    plain_rotated: usize,
    plain_total: usize,
    gz: usize,
    stream: Vec<u8>,
    newest_is_plain: bool,
    has_current: bool,
}

fn view(env: &Env, cfg: &Cfg) -> Result<View, (&'static str, String)> {
    let scan = family::scan(&env.dir, &cfg.parts, None, cfg.naming(), &[]);
    if !scan.foreign.is_empty() || !scan.other.is_empty() {
        return Err(("unclassifiable-file", format!("files outside the family: {:?} {:?}", scan.foreign, scan.other)));
    }
    let mut snap = Snap::new();
    let mut stream = Vec::new();
    let mut plain_rotated = 0;
    let mut plain_total = 0;
    let mut gz = 0;
    for m in &scan.members {
        let content = family::read_file(&env.dir.join(&m.name)).map_err(|e| ("gz-roundtrip", e))?;
        if m.gz {
            gz += 1;
        } else {
            plain_total += 1;
            if m.role == Role::Rotated {
                plain_rotated += 1;
            }
        }
        if snap.insert(m.logical.clone(), (m.gz, content.clone())).is_some() {
            return Err(("plain-and-gz", format!("{} exists both plain and compressed", m.logical)));
        }
        stream.extend(content);
    }
    Ok(View {
        newest_is_plain: scan.members.last().is_some_and(|m| !m.gz),
        has_current: scan.members.iter().any(|m| m.role == Role::Current),
        names: scan.names(),
        snap,
        plain_rotated,
        plain_total,
        gz,
        stream,
    })
}

/// Checks one directory view against the accepted stream and the previous view.
fn step_oracle(cfg: &Cfg, v: &View, prev: Option<&View>, strict_prev: bool, accepted: &[Vec<u8>], live_wrote: bool, ending: &str) -> Result<usize, (&'static str, String)> {
    let (_, naming, clean) = cfg.rotation.expect("rotation");
    let (k, m) = clean.limits().expect("cleanup");
    // 1. count limits
    if naming.direct() {
        let kk = k.max(1);
        if v.plain_total > kk {
            return Err(("too-many-plain", format!("{} plain files (limit {k}, direct naming: {kk} incl. current): {:?}", v.plain_total, v.names)));
        }
    } else if v.plain_rotated > k {
        return Err(("too-many-plain", format!("{} rotated plain files, limit {k}: {:?}", v.plain_rotated, v.names)));
    }
    if v.gz > m {
        return Err(("too-many-gz", format!("{} compressed files, limit {m}: {:?}", v.gz, v.names)));
    }
    // 2. contiguous tail of the logged stream
    let skipped = match suffix_of_lines(accepted, &v.stream) {
        Some(s) => s,
        None => {
            return Err((
                "not-contiguous-tail",
                format!(
                    "files {:?}\n   read oldest to newest: {:?}\n   logged stream        : {:?}",
                    v.names,
                    String::from_utf8_lossy(&v.stream),
                    String::from_utf8_lossy(&accepted.concat())
                ),
            ));
        }
    };
    // 3. compressed files: whole lines, and equal to the plain file they replaced
    for (logical, (gz, content)) in &v.snap {
        if *gz {
            if !content.is_empty() && !content.ends_with(ending.as_bytes()) {
                return Err(("gz-roundtrip", format!("{logical}.gz does not hold whole lines: {:?}", String::from_utf8_lossy(content))));
            }
            // (only when `prev` is the state directly before a single operation: then a plain
            // file of `prev` cannot have grown before it was compressed)
            if let Some(p) = prev.filter(|_| strict_prev) {
                if let Some((false, old)) = p.snap.get(logical).map(|(g, c)| (*g, c)) {
                    if old != content {
                        return Err(("gz-roundtrip", format!("{logical}.gz decompresses to {:?}, the plain file held {:?}", String::from_utf8_lossy(content), String::from_utf8_lossy(old))));
                    }
                }
                // a compressed file that existed before the operation and still exists holds
                // what it held (a loss here would pass for a removal by the limit in clause 2)
                if let Some((true, old)) = p.snap.get(logical).map(|(g, c)| (*g, c)) {
                    if old != content {
                        return Err(("gz-roundtrip", format!("{logical}.gz held {:?} before the operation and holds {:?} afterwards", String::from_utf8_lossy(old), String::from_utf8_lossy(content))));
                    }
                }
            }
        }
    }
    // 4. the file currently written to exists, is plain, and is the newest
    if live_wrote {
        if !v.newest_is_plain {
            return Err(("current-touched", format!("the newest file is not a plain file: {:?}", v.names)));
        }
        if naming.current_infix().is_some() && !v.has_current {
            return Err(("current-touched", format!("no current file: {:?}", v.names)));
        }
    }
    // 5. nothing is removed beyond the limit
    if let Some(p) = prev {
        let allowed = if naming.direct() { k.max(1) + m } else { k + m + 1 };
        let before = p.snap.len();
        if v.snap.len() < before.min(allowed) {
            return Err((
                "over-deleted",
                format!("{} files before, {} after, although the limit permits {allowed}: before {:?}, after {:?}", before, v.snap.len(), p.names, v.names),
            ));
        }
    }
    Ok(skipped)
}

struct Fail {
    clause: &'static str,
    at: usize,
    detail: String,
}

fn run_history(c: &Case, word: &[HOp]) -> Result<(Vec<(usize, usize, usize)>, bool), Fail> {
    // one scenario at a time per process; chrono re-reads TZ on every conversion
    let env = if c.dst {
        std::env::set_var("TZ", "Europe/Berlin");
        Env::at("c07", crate::hooks::ts(2023, 10, 29, 2, 30, 0))
    } else {
        std::env::remove_var("TZ");
        Env::new("c07")
    };
    env.enter();
    let mut h = Hist::new(&env, c.cfg.clone());
    let buffered = matches!(c.cfg.mode, ModeK::BufDont(_) | ModeK::BufFlush(..));
    // (buffered: the current file on disk lags behind; judged at restarts and after shutdown)
    let sync = !c.cfg.mode.is_async() && !c.cfg.bg_cleanup && !buffered;
    let mut prev: Option<View> = None;
    let mut shapes = Vec::new();
    let mut removed_or_compressed = false;
    let ending = c.cfg.ending();
    let mut check = |h: &Hist, at: usize, prev: &mut Option<View>, live_wrote: bool| -> Result<(), Fail> {
        let v = view(h.env, &c.cfg).map_err(|(cl, d)| Fail {
            clause: cl,
            at,
            detail: d,
        })?;
        let skipped = step_oracle(&c.cfg, &v, prev.as_ref(), sync, &h.accepted, live_wrote, ending).map_err(|(cl, d)| Fail {
            clause: cl,
            at,
            detail: d,
        })?;
        if v.gz > 0 || skipped > 0 {
            removed_or_compressed = true;
        }
        shapes.push((v.plain_total, v.gz, skipped));
        *prev = Some(v);
        Ok(())
    };
    let mut wrote_in_run = false;
    for (i, op) in word.iter().enumerate() {
        if matches!(op, HOp::Restart(_)) {
            wrote_in_run = false;
        }
        if let Err(e) = h.apply(*op) {
            return Err(Fail {
                clause: "op-error",
                at: i,
                detail: format!("{e:?}"),
            });
        }
        if matches!(op, HOp::W(_)) {
            wrote_in_run = true;
        }
        if sync {
            check(&h, i, &mut prev, wrote_in_run)?;
        } else if matches!(op, HOp::Restart(_)) {
            // async: the previous run was shut down by the restart, but the new logger has not
            // necessarily done anything yet; judge without the "current" clause
            // (the restarted logger initialises lazily, so the directory is the one shutdown left)
            check(&h, i, &mut prev, false)?;
        }
    }
    h.stop();
    check(&h, word.len(), &mut prev, false)?;
    let errs = env.errlines();
    if !errs.is_empty() {
        return Err(Fail {
            clause: "error-channel",
            at: word.len(),
            detail: format!("{errs:?}"),
        });
    }
    drop(h);
    env.leave();
    Ok((shapes, removed_or_compressed))
}

fn suffix_class(c: &Cfg) -> &'static str {
    match c.parts.suffix.as_deref() {
        None => "no-suffix",
        Some(s) if s.contains('.') => "dotted-suffix",
        Some(s) if s > "restart" => "suffix>restart",
        Some(_) => "log-like",
    }
}
fn clean_class(k: CleanK) -> String {
    let z = |n: usize| if n == 0 { "0" } else { ">0" };
    match k {
        CleanK::Never => "never".into(),
        CleanK::Log(k) => format!("KeepLog({})", z(k)),
        CleanK::Gz(m) => format!("KeepGz({})", z(m)),
        CleanK::LogGz(k, m) => format!("KeepLogGz({},{})", z(k), z(m)),
    }
}
fn cause(cfg: &Cfg, how: &str) -> String {
    let (_, n, k) = cfg.rotation.unwrap();
    format!("{}/{}/{}/{how}", n.short(), clean_class(k), suffix_class(cfg))
}

fn judge(c: &Case, word: &[HOp], case: Value) -> (Option<Violation>, Option<(Vec<(usize, usize, usize)>, bool)>) {
    let cc = c.clone();
    let ww = word.to_vec();
    let how = if c.cfg.mode.is_async() {
        "async"
    } else if matches!(c.cfg.mode, ModeK::BufDont(_) | ModeK::BufFlush(..)) {
        "buffered"
    } else if c.cfg.bg_cleanup {
        "background"
    } else {
        "sync"
    };
    match run_isolated(Duration::from_secs(30), move || run_history(&cc, &ww)) {
        Ran::Done(Ok(s)) => (None, Some(s)),
        Ran::Done(Err(f)) => (
            Some(Violation::new(f.clause, cause(&c.cfg, how), format!("cfg={:?}\n  history={word:?}\n  after op {}: {}", c.cfg, f.at, f.detail), case)),
            None,
        ),
        Ran::Panicked(m) => (Some(Violation::new("panic", cause(&c.cfg, how), format!("cfg={:?} history={word:?}: {m}", c.cfg), case)), None),
        Ran::Hung => (Some(Violation::new("hang", cause(&c.cfg, how), format!("cfg={:?} history={word:?}", c.cfg), case)), None),
    }
}

// ---------------------------------------------------------------- E2 body

#[derive(Debug, Clone, PartialEq)]
struct SObs {
    result: Result<(usize, usize, usize), (String, String)>,
    names: Vec<String>,
}

fn sched_cfg() -> SchedCfg {
    sched_cfg_for(false)
}
fn sched_cfg_for(racing: bool) -> SchedCfg {
    SchedCfg {
        ignore: vec!["flw_pool_pop", "flw_pool_push", "std_pool_pop", "std_pool_push", "std_lock", "set_max_level", "flush", "write"],
        detect_real_blocking: racing,
        nonblocking_locks: if racing { vec!["flw_state"] } else { vec![] },
        ..SchedCfg::default()
    }
}

fn sched_body(sc: SCase) -> Arc<dyn Fn(&Arc<Sched>) -> SObs + Send + Sync> {
    Arc::new(move |s: &Arc<Sched>| {
        // the driver itself is the logging thread; the cleanup thread registers when it is spawned
        let env = Env::in_current("c07s");
        let mut h = Hist::new(&env, sc.cfg.clone());
        let mut res: Result<(usize, usize, usize), (String, String)> = Ok((0, 0, 0));
        for _ in 0..=sc.rotations {
            if let Err(e) = h.apply(HOp::W(20)) {
                res = Err(("op-error".into(), format!("{e:?}")));
                break;
            }
            // invariant in every intermediate state reachable at an operation boundary: the
            // current file exists, is plain, holds the newest record; nothing lost except by
            // removal of oldest files
            match view(&env, &sc.cfg) {
                Ok(v) => {
                    if suffix_of_lines(&h.accepted, &v.stream).is_none() && !v.snap.is_empty() {
                        // while a compression is in progress a file can exist twice; tolerate
                        // plain+gz duplicates here, the final oracle is strict
                    }
                    if !v.newest_is_plain {
                        res = Err(("current-touched".into(), format!("intermediate: newest file not plain: {:?}", v.names)));
                        break;
                    }
                }
                Err(("plain-and-gz", _)) => {}
                Err((c, d)) => {
                    // a half-written gz is legitimately unreadable while the cleanup thread is
                    // in the middle of compressing
                    if c != "gz-roundtrip" {
                        res = Err((c.into(), d));
                        break;
                    }
                }
            }
        }
        let racer = if sc.racing {
            h.live.as_ref().map(|l| {
                let h2 = l.handle.clone();
                s.spawn("racer", move || {
                    h2.reopen_output().ok();
                    drop(h2);
                })
            })
        } else {
            None
        };
        h.stop();
        // (judged when shutdown() has returned; the racing thread is joined afterwards)
        let names = family::list_names(&env.dir);
        if res.is_ok() {
            res = match view(&env, &sc.cfg) {
                Ok(v) => {
                    // every file of this history was closed by the size criterion, i.e. it holds
                    // at least one record: an empty file (compressed or not) lost its content - a
                    // loss that the tail clause would take for a removal by the limit
                    match v.snap.iter().find(|(_, (_, content))| content.is_empty()) {
                        Some((logical, (gz, _))) => Err(("gz-roundtrip".to_string(), format!("{logical}{} is empty although a record was logged into it before it was closed: files {:?}", if *gz { ".gz" } else { "" }, v.names))),
                        None => step_oracle(&sc.cfg, &v, None, false, &h.accepted, false, "\n").map(|sk| (v.plain_total, v.gz, sk)).map_err(|(c, d)| (c.to_string(), d)),
                    }
                }
                Err((c, d)) => Err((c.to_string(), d)),
            };
        }
        if let Some(jh) = racer {
            s.join(jh);
        }
        drop(h);
        SObs { result: res, names }
    })
}

fn run_sched_unit(tier: &str, idx: usize, out: &mut Out) {
    let scs = sched_cases();
    let sc = scs[idx].clone();
    let bound = if tier == "quick" { sc.bound_q } else { sc.bound_t };
    let cfg = sched_cfg_for(sc.racing);
    let body = sched_body(sc.clone());
    let mut first_bad: Option<Violation> = None;
    let mut machinery: Option<String> = None;
    let mut nontrivial = 0u64;
    let mut outcomes: BTreeMap<String, u64> = BTreeMap::new();
    let clock = || Some(crate::hooks::VClock::new(crate::hooks::base_instant()));
    let stats = sched::explore(&cfg, Some(bound), 400_000, &clock, body.clone(), &mut |choices, ex| {
        if ex.stalled {
            machinery = Some(format!("execution stalled; schedule {choices:?}; log {:?}", ex.log));
            return false;
        }
        if let Some(Abort::Diverged(m)) = &ex.abort {
            machinery = Some(format!("replay diverged: {m}; schedule {choices:?}"));
            return false;
        }
        if ex.points.iter().any(|p| p.running_enabled && p.chosen != 0) {
            nontrivial += 1;
        }
        let case = json!({"kind": "sched", "idx": idx, "schedule": choices});
        let bad: Option<(String, String)> = match (&ex.abort, &ex.obs) {
            (Some(Abort::Deadlock(d)), _) => Some(("deadlock".into(), d.clone())),
            (_, Some(o)) => match &o.result {
                Ok(shape) => {
                    *outcomes.entry(format!("{shape:?}")).or_insert(0) += 1;
                    None
                }
                Err((c, d)) => Some((c.clone(), d.clone())),
            },
            _ => None,
        };
        if let Some((c, d)) = bad {
            *outcomes.entry(format!("BAD {c}")).or_insert(0) += 1;
            if first_bad.as_ref().map_or(true, |v| v.case["schedule"].as_array().map_or(0, Vec::len) > choices.len()) {
                let steps: Vec<String> = ex.points.iter().map(|p| p.ops[p.chosen].clone()).collect();
                first_bad = Some(Violation::new(&c, cause(&sc.cfg, "background"), format!("cfg={:?}\n  schedule={choices:?}\n  {d}\n  steps: {steps:?}", sc.cfg), case));
            }
        }
        true
    });
    out.evaluations += stats.schedules;
    out.traces_validated += stats.schedules;
    out.transitions += stats.choice_points;
    out.count("schedules", stats.schedules);
    out.max("max_choice_points_per_schedule", stats.max_points as u64);
    out.max("max_preemption_bound_completed", bound as u64);
    for (k, n) in outcomes {
        *out.outcomes.entry(format!("bg {}: {k}", sc.cfg.naming().unwrap().short())).or_insert(0) += n;
    }
    for i in 0..stats.choice_points.min(1_000_000) {
        out.state(&("s", idx, i));
    }
    for i in 0..nontrivial {
        out.nontrivial(&("s", idx, i));
    }
    if stats.capped {
        out.capped = true;
    }
    if idx == 0 {
        out.sample(json!({"background_harness": format!("{:?}", sc.cfg.rotation), "schedules": stats.schedules, "preemption_bound": bound, "max_choice_points": stats.max_points}));
    }
    if let Some(m) = machinery {
        out.violation(Violation::new("machinery", "scheduler", m, json!({"kind": "sched", "idx": idx})));
        out.capped = true;
        return;
    }
    if let Some(v) = first_bad {
        let sch: Vec<usize> = v.case["schedule"].as_array().into_iter().flatten().filter_map(|x| x.as_u64().map(|n| n as usize)).collect();
        let e1 = sched::run_once(&cfg, &sch, clock(), body.clone());
        let e2 = sched::run_once(&cfg, &sch, clock(), body.clone());
        let same = match (&e1.obs, &e2.obs) {
            (Some(a), Some(b)) => a.result.is_err() == b.result.is_err() && a.names == b.names,
            (None, None) => e1.abort == e2.abort,
            _ => false,
        };
        if same {
            out.violation(v);
        } else {
            out.violation(Violation::new("nondeterministic", "replay-diverged", v.detail.clone(), v.case.clone()));
        }
    }
}

fn run_unit(tier: &str, unit: usize, out: &mut Out) {
    if unit >= e1_units() {
        std::env::remove_var("TZ");
        run_sched_unit(tier, unit - e1_units(), out);
        return;
    }
    let g = grid();
    let alpha = alphabet();
    let c = &g[unit / alpha.len()];
    let first = unit % alpha.len();
    let d = if tier == "quick" { c.depth_q } else { c.depth_t };
    for_each_word(alpha.len(), d - 1, |rest| {
        let mut w = vec![first];
        w.extend_from_slice(rest);
        let word: Vec<HOp> = w.iter().map(|i| alpha[*i]).collect();
        let case = json!({"kind": "hist", "unit": unit, "word": w, "cfg": format!("{:?}", c.cfg)});
        let (v, r) = judge(c, &word, case.clone());
        out.evaluations += 1;
        out.traces_validated += 1;
        out.transitions += word.len() as u64 + 1;
        if let Some((shapes, nt)) = r {
            for s in &shapes {
                out.state(&(unit / alpha.len(), s));
            }
            if nt {
                out.nontrivial(&(unit, &w));
            }
            out.outcome(format!("final(plain,gz,lines_removed)={:?}", shapes.last().map(|s| (s.0, s.1, s.2.min(3)))));
            if out.samples.len() < 3 && w.len() == d && shapes.last().is_some_and(|s| s.1 > 0 && s.2 > 0) {
                out.sample(json!({"cfg": format!("{:?}", c.cfg.rotation), "history": format!("{word:?}"), "(plain,gz,lines_removed) after each op": format!("{shapes:?}")}));
            }
        }
        if let Some(v) = v {
            let (v2, _) = judge(c, &word, case);
            match v2 {
                Some(v2) if v2.key() == v.key() => out.violation(v),
                _ => out.violation(Violation::new("nondeterministic", "replay-diverged", v.detail.clone(), v.case.clone())),
            }
        }
    });
    out.max("max_depth_completed", d as u64);
}

fn replay(case: &Value) -> Vec<Violation> {
    if case["kind"].as_str() == Some("sched") {
        let idx = case["idx"].as_u64().unwrap_or(0) as usize;
        let scs = sched_cases();
        let Some(sc) = scs.get(idx) else { return vec![] };
        let sch: Vec<usize> = case["schedule"].as_array().into_iter().flatten().filter_map(|x| x.as_u64().map(|n| n as usize)).collect();
        let mut cfg = sched_cfg_for(sc.racing);
        cfg.keep_log = true;
        let ex = sched::run_once(&cfg, &sch, Some(crate::hooks::VClock::new(crate::hooks::base_instant())), sched_body(sc.clone()));
        println!("replay C07 (background cleanup): cfg={:?} schedule={sch:?}", sc.cfg);
        for l in &ex.log {
            println!("  {l}");
        }
        println!("  observation: {:?} abort={:?}", ex.obs, ex.abort);
        return match (&ex.abort, &ex.obs) {
            (Some(Abort::Deadlock(d)), _) => vec![Violation::new("deadlock", cause(&sc.cfg, "background"), d.clone(), case.clone())],
            (_, Some(o)) => match &o.result {
                Err((c, d)) => vec![Violation::new(c, cause(&sc.cfg, "background"), d.clone(), case.clone())],
                Ok(_) => vec![],
            },
            _ => vec![],
        };
    }
    let g = grid();
    let alpha = alphabet();
    let unit = case["unit"].as_u64().unwrap_or(0) as usize;
    let Some(c) = g.get(unit / alpha.len()) else { return vec![] };
    let w: Vec<usize> = case["word"].as_array().into_iter().flatten().filter_map(|x| x.as_u64().map(|n| n as usize)).collect();
    let word: Vec<HOp> = w.iter().filter_map(|i| alpha.get(*i).copied()).collect();
    println!("replay C07: cfg={:?}\n  history={word:?}", c.cfg);
    judge(c, &word, case.clone()).0.into_iter().collect()
}
